package xport

import (
	"fmt"
	"math/big"
	"runtime/debug"
	"strings"
	"sync/atomic"
	"time"

	"github.com/markkurossi/mpc/p2p"
)

// slowFailures counts sessions of this process that stalled or timed out.
var slowFailures atomic.Int64

// PartyResult is what one protocol party ended with.
type PartyResult struct {
	Vals  []*big.Int
	Err   error
	Panic string // non-empty when the party's goroutine panicked
	Done  bool   // the goroutine returned (or panicked) before we gave up
}

// Failed tells whether the party ended with an error or a panic.
func (p PartyResult) Failed() bool { return p.Err != nil || p.Panic != "" }

// PairOutcome summarises a two-party session.
type PairOutcome struct {
	A, B     PartyResult
	Stalled  bool // both parties blocked in Read with nothing in flight
	TimedOut bool // budget exhausted (inconclusive)
}

// RunPair runs the two parties over d.  When one party fails, or the session
// stalls, or the budget is exhausted, the pipe is closed so that the other
// party's pending Read fails.  Panics are recovered per goroutine.
func RunPair(d *Duplex, a, b func() ([]*big.Int, error),
	stallGrace, budget time.Duration) PairOutcome {

	out := runPair(d, a, b, stallGrace, budget)
	Release(out, d.conns...)
	d.conns = nil
	return out
}

func runPair(d *Duplex, a, b func() ([]*big.Int, error),
	stallGrace, budget time.Duration) PairOutcome {

	// Once a session of this process has stalled or timed out, later
	// sessions (typically the shrinking attempts of that failure) use a
	// short grace and budget, otherwise shrinking takes minutes.
	if slowFailures.Load() > 0 {
		if stallGrace > 1500*time.Millisecond {
			stallGrace = 1500 * time.Millisecond
		}
		if budget > 20*time.Second {
			budget = 20 * time.Second
		}
	}

	type res struct {
		who int
		r   PartyResult
	}
	ch := make(chan res, 2)
	start := func(who int, f func() ([]*big.Int, error)) {
		go func() {
			var r PartyResult
			defer func() {
				if p := recover(); p != nil {
					r.Panic = fmt.Sprintf("%v\n%s", p, trimStack(debug.Stack()))
				}
				r.Done = true
				ch <- res{who, r}
			}()
			r.Vals, r.Err = f()
		}()
	}
	start(0, a)
	start(1, b)

	var out PairOutcome
	deadline := time.Now().Add(budget)
	pending := 2
	tick := time.NewTicker(2 * time.Millisecond)
	defer tick.Stop()
	var closedAt time.Time
	for pending > 0 {
		select {
		case r := <-ch:
			pending--
			if r.who == 0 {
				out.A = r.r
			} else {
				out.B = r.r
			}
			if r.r.Failed() {
				d.Close()
				if closedAt.IsZero() {
					closedAt = time.Now()
				}
			}
		case <-tick.C:
			now := time.Now()
			if !closedAt.IsZero() {
				if now.Sub(closedAt) > 5*time.Second {
					// A party does not return although the pipe
					// is closed: give up on it (goroutine leaks).
					return out
				}
				continue
			}
			stalled := false
			if pending == 2 {
				stalled = d.Stalled(stallGrace)
			} else if out.A.Done {
				// A returned fine; B waits for data from A.
				stalled = d.OneSidedStall(0, stallGrace)
			} else {
				stalled = d.OneSidedStall(1, stallGrace)
			}
			if stalled {
				out.Stalled = true
				slowFailures.Add(1)
				d.Close()
				closedAt = now
			} else if now.After(deadline) {
				out.TimedOut = true
				slowFailures.Add(1)
				d.Close()
				closedAt = now
			}
		}
	}
	return out
}

// Release stops the writer goroutines of the connections of a finished session
// (p2p.NewConn starts one per connection; it keeps the 1 MB read buffer and the
// write buffers of the connection alive until Conn.Close).  Nothing is done
// when a party goroutine is still running: it may still use its connection.
func Release(out PairOutcome, conns ...*p2p.Conn) {
	if !out.A.Done || !out.B.Done {
		return
	}
	for _, c := range conns {
		func() {
			defer func() { recover() }()
			// Nothing is flushed any more: the session is over and the
			// recorded transcript must stay what the parties sent.
			c.WritePos = 0
			c.Close()
		}()
	}
}

func trimStack(st []byte) string {
	lines := strings.Split(string(st), "\n")
	var keep []string
	for i := 0; i < len(lines) && len(keep) < 24; i++ {
		l := lines[i]
		if strings.Contains(l, "runtime/debug") || strings.Contains(l, "runtime/panic") {
			continue
		}
		keep = append(keep, l)
	}
	return strings.Join(keep, "\n")
}

// PanicSiteOf extracts "pkg.Func" of the first frame inside the module under
// test from a stack text produced by RunPair.
func PanicSiteOf(stack string) string {
	for _, l := range strings.Split(stack, "\n") {
		if i := strings.Index(l, "github.com/markkurossi/mpc/"); i >= 0 && !strings.HasPrefix(strings.TrimSpace(l), "/") {
			fn := l[i+len("github.com/markkurossi/mpc/"):]
			if j := strings.Index(fn, "("); j > 0 {
				// keep receiver forms like circuit.(*Circuit).Eval
				if k := strings.LastIndex(fn, "("); k > j {
					fn = fn[:k]
				}
			}
			if j := strings.LastIndex(fn, "/"); j >= 0 {
				fn = fn[j+1:]
			}
			return strings.TrimSpace(fn)
		}
	}
	return "unknown"
}
