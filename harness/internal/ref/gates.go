// Package ref holds the reference models (oracles) that are independent of the
// code under test.
package ref

import "fmt"

// Gate operations, numbered like circuit.Operation but defined here so that
// the oracle does not depend on the package under test.
const (
	XOR = iota
	XNOR
	AND
	OR
	INV
)

// OpName returns the mnemonic of an operation.
func OpName(op int) string {
	switch op {
	case XOR:
		return "XOR"
	case XNOR:
		return "XNOR"
	case AND:
		return "AND"
	case OR:
		return "OR"
	case INV:
		return "INV"
	}
	return fmt.Sprintf("op%d", op)
}

// Gate is {op, in0, in1, out}.
type Gate [4]int

// EvalGates evaluates gates in order over a wire vector whose first
// len(inputs) entries are the input bits.  It returns the value of every wire.
// Truth tables are written out explicitly.
func EvalGates(numWires int, gates []Gate, inputs []bool) []bool {
	w := make([]bool, numWires)
	copy(w, inputs)
	for _, g := range gates {
		a := w[g[1]]
		var r bool
		switch g[0] {
		case XOR:
			b := w[g[2]]
			r = (a && !b) || (!a && b)
		case XNOR:
			b := w[g[2]]
			r = (a && b) || (!a && !b)
		case AND:
			b := w[g[2]]
			r = a && b
		case OR:
			b := w[g[2]]
			r = a || b
		case INV:
			r = !a
		default:
			panic(fmt.Sprintf("ref: bad op %d", g[0]))
		}
		w[g[3]] = r
	}
	return w
}
