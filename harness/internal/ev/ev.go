// Package ev is the evidence / verdict side channel shared by all property
// harnesses.  A harness turns every generated case into a plain data value
// (the "case"), executes it with a pure run function, and reports the outcome
// here.  The collector counts evaluations, distinct non-trivial cases, classes,
// keeps samples, writes replay files for violations and knows the committed
// list of known findings.  The driver (/verif/check) merges the JSON written by
// Flush into /verif/evidence/<ID>.json and prints the verdict lines.
package ev

import (
	"bufio"
	"crypto/sha1"
	"encoding/binary"
	"encoding/hex"
	"encoding/json"
	"fmt"
	"hash/fnv"
	"os"
	"path"
	"path/filepath"
	"sort"
	"strconv"
	"strings"
	"sync"
	"testing"
	"time"

	"pgregory.net/rapid"
)

// Outcome is what a run function reports for one case.
type Outcome struct {
	// Err is empty when the property held on this case, otherwise a
	// human-readable description of the violation.
	Err string
	// Sig names the failing input class / call site; it is what a known
	// finding is matched against.  Only meaningful when Err != "".
	Sig string
	// Nontrivial tells whether the case is non-trivial by the unit's rule.
	Nontrivial bool
	// Key identifies the case for distinct counting ("" = hash of the JSON
	// encoding of the case).
	Key string
	// Classes are labels used to measure the generator's distribution.
	Classes []string
	// Skip marks a case that could not be executed (precondition filter);
	// it is counted separately and is never evidence.
	Skip string
	// Evals is the number of evaluations this case stands for (0 = 1).
	Evals int
	// Sample, when set, is written to the evidence samples instead of the
	// case itself (a readable rendering, e.g. program source + inputs).
	Sample interface{}
}

// OK is a helper for a passing outcome.
func OK(nontrivial bool, classes ...string) Outcome {
	return Outcome{Nontrivial: nontrivial, Classes: classes}
}

// Fail is a helper for a violation.
func Fail(sig, format string, a ...interface{}) Outcome {
	return Outcome{Err: fmt.Sprintf(format, a...), Sig: sig, Nontrivial: true}
}

type violation struct {
	Unit   string `json:"unit"`
	Sig    string `json:"sig"`
	What   string `json:"what"`
	Replay string `json:"replay"`
	Flaky  bool   `json:"flaky,omitempty"`
	// Provisional marks the first (unshrunk) failing case of a unit: it is
	// written at once so that a process killed while shrinking still
	// leaves a violation with a replay file; the shrunk case replaces it.
	Provisional bool `json:"provisional,omitempty"`
}

// Finding is one line of known_findings.jsonl.
type Finding struct {
	Property string `json:"property"`
	Key      string `json:"key"`
	Status   string `json:"status"`
	What     string `json:"what"`
	Commit   string `json:"commit,omitempty"`
}

// Collector accumulates the statistics of one test process.
type Collector struct {
	mu          sync.Mutex
	Property    string
	Tier        string
	Seed        int64
	out         string
	evals       int64
	skipped     map[string]int64
	classes     map[string]int64
	counters    map[string]int64
	distinct    map[uint64]struct{}
	samples     []json.RawMessage
	sampleClass map[string]bool
	violations  []violation
	known       map[string]*Finding
	knownSeen   map[string]int64
	knownSample map[string]json.RawMessage
	notes       []string
	units       map[string]int64
	lastFlush   time.Time
}

var (
	globalMu sync.Mutex
	global   *Collector
)

// Get returns the process-wide collector for the property.
func Get(property string) *Collector {
	globalMu.Lock()
	defer globalMu.Unlock()
	if global != nil {
		return global
	}
	c := &Collector{
		Property:    property,
		Tier:        os.Getenv("VERIF_TIER"),
		out:         os.Getenv("VERIF_EV_OUT"),
		skipped:     map[string]int64{},
		classes:     map[string]int64{},
		counters:    map[string]int64{},
		distinct:    map[uint64]struct{}{},
		sampleClass: map[string]bool{},
		known:       map[string]*Finding{},
		knownSeen:   map[string]int64{},
		knownSample: map[string]json.RawMessage{},
		units:       map[string]int64{},
		lastFlush:   time.Now(),
	}
	if c.Tier == "" {
		c.Tier = "quick"
	}
	c.Seed, _ = strconv.ParseInt(os.Getenv("VERIF_SEED_EFFECTIVE"), 10, 64)
	c.loadKnown()
	global = c
	return c
}

// Thorough reports whether the thorough tier was requested.
func (c *Collector) Thorough() bool { return c.Tier == "thorough" }

// Shard returns this process' shard index and the number of shards.
func Shard() (int, int) {
	s := os.Getenv("VERIF_SHARD")
	if s == "" {
		return 0, 1
	}
	parts := strings.Split(s, "/")
	if len(parts) != 2 {
		return 0, 1
	}
	i, _ := strconv.Atoi(parts[0])
	n, _ := strconv.Atoi(parts[1])
	if n <= 0 {
		return 0, 1
	}
	return i, n
}

// N returns the tier-dependent budget: VERIF_N overrides (set by the driver
// for plain, non-rapid units), else quick or thorough.
func (c *Collector) N(quick, thorough int) int {
	if s := os.Getenv("VERIF_N"); s != "" {
		if n, err := strconv.Atoi(s); err == nil && n > 0 {
			return n
		}
	}
	if c.Thorough() {
		return thorough
	}
	return quick
}

// VerifDir returns the /verif directory.
func VerifDir() string {
	if d := os.Getenv("VERIF_DIR"); d != "" {
		return d
	}
	return "/verif"
}

func (c *Collector) loadKnown() {
	path := os.Getenv("VERIF_KNOWN")
	if path == "" {
		path = filepath.Join(VerifDir(), "known_findings.txt")
	}
	for _, fd := range LoadFindings(path) {
		if fd.Property == c.Property && fd.Status == "open" {
			cp := fd
			c.known[fd.Key] = &cp
		}
	}
}

// LoadFindings parses a known-findings file.  Line formats:
//
//	open: property=C04 key=<signature> <what fails>
//	fixed: property=C03 <commit> <what failed>
//
// and, for private files of harness authors, JSON objects
// {"property":..,"key":..,"status":"open","what":..}.  Only open entries
// suppress anything; the file is never written at run time.
func LoadFindings(path string) []Finding {
	f, err := os.Open(path)
	if err != nil {
		return nil
	}
	defer f.Close()
	var res []Finding
	sc := bufio.NewScanner(f)
	sc.Buffer(make([]byte, 1<<20), 1<<20)
	for sc.Scan() {
		line := strings.TrimSpace(sc.Text())
		if line == "" || strings.HasPrefix(line, "#") {
			continue
		}
		if strings.HasPrefix(line, "{") {
			var fd Finding
			if err := json.Unmarshal([]byte(line), &fd); err == nil {
				res = append(res, fd)
			}
			continue
		}
		var fd Finding
		switch {
		case strings.HasPrefix(line, "open:"):
			fd.Status = "open"
			line = strings.TrimSpace(line[5:])
		case strings.HasPrefix(line, "fixed:"):
			fd.Status = "fixed"
			line = strings.TrimSpace(line[6:])
		default:
			continue
		}
		fields := strings.Fields(line)
		rest := 0
		for i, fl := range fields {
			if strings.HasPrefix(fl, "property=") {
				fd.Property = fl[9:]
				rest = i + 1
			} else if strings.HasPrefix(fl, "key=") {
				fd.Key = fl[4:]
				rest = i + 1
			} else {
				break
			}
		}
		if fd.Status == "fixed" && rest < len(fields) {
			fd.Commit = fields[rest]
			rest++
		}
		fd.What = strings.Join(fields[rest:], " ")
		res = append(res, fd)
	}
	return res
}

// IsKnown tells whether sig is listed as an open known finding.
func (c *Collector) IsKnown(sig string) bool {
	return c.knownKey(sig) != ""
}

// knownKey returns the key of the open known finding that covers sig: the
// signature itself, or a listed pattern in which '*' stands for any run of
// characters inside one '/'-separated segment (path.Match syntax), e.g.
// fold/*/int/*/neg*/* = "any folded operator on a signed type with a negative
// constant operand".
func (c *Collector) knownKey(sig string) string {
	if _, ok := c.known[sig]; ok {
		return sig
	}
	for key := range c.known {
		if strings.ContainsAny(key, "*?[") {
			if ok, err := path.Match(key, sig); err == nil && ok {
				return key
			}
		}
	}
	return ""
}

func hash64(s string) uint64 {
	h := fnv.New64a()
	h.Write([]byte(s))
	return h.Sum64()
}

func marshalSample(v interface{}) json.RawMessage {
	data, err := json.Marshal(v)
	if err != nil {
		data, _ = json.Marshal(fmt.Sprintf("%+v", v))
	}
	if len(data) > 6000 {
		s := string(data[:6000])
		data, _ = json.Marshal(map[string]interface{}{
			"truncated_json_prefix": s, "full_length": len(data)})
	}
	return data
}

// Count adds n to a named counter.
func (c *Collector) Count(name string, n int) {
	c.mu.Lock()
	c.counters[name] += int64(n)
	c.mu.Unlock()
}

// Note adds a free-text note (deduplicated) to the evidence.
func (c *Collector) Note(format string, a ...interface{}) {
	s := fmt.Sprintf(format, a...)
	c.mu.Lock()
	defer c.mu.Unlock()
	for _, n := range c.notes {
		if n == s {
			return
		}
	}
	c.notes = append(c.notes, s)
}

// Record books the outcome of one executed case.  It returns true when the
// outcome is a violation that is NOT covered by a known finding.
func (c *Collector) Record(unit string, cs interface{}, out Outcome) bool {
	c.mu.Lock()
	defer c.mu.Unlock()
	if out.Skip != "" {
		c.skipped[unit+":"+out.Skip]++
		return false
	}
	n := int64(out.Evals)
	if n <= 0 {
		n = 1
	}
	c.evals += n
	c.units[unit] += n
	// Keep the side file fresh: a process that is killed at its time
	// budget still leaves its statistics behind.
	if c.out != "" && time.Since(c.lastFlush) > 10*time.Second {
		c.lastFlush = time.Now()
		go c.Flush()
	}
	for _, cl := range out.Classes {
		c.classes[unit+":"+cl]++
	}
	var raw json.RawMessage
	if out.Nontrivial {
		key := out.Key
		if key == "" {
			raw = marshalSample(cs)
			if len(raw) > 5900 {
				full, _ := json.Marshal(cs)
				key = string(full)
			} else {
				key = string(raw)
			}
		}
		c.distinct[hash64(unit+"\x00"+key)] = struct{}{}
	}
	if out.Err != "" {
		if key := c.knownKey(out.Sig); key != "" {
			c.knownSeen[key]++
			if _, have := c.knownSample[key]; !have {
				c.knownSample[key] = marshalSample(map[string]interface{}{
					"case": cs, "what": out.Err, "sig": out.Sig})
			}
			return false
		}
		return true
	}
	// Samples: the first three non-trivial cases of a unit and the first
	// case of every class.
	want := false
	if out.Nontrivial && !c.sampleClass[unit+"#1"] {
		c.sampleClass[unit+"#1"] = true
		want = true
	} else if out.Nontrivial && !c.sampleClass[unit+"#2"] {
		c.sampleClass[unit+"#2"] = true
		want = true
	}
	for _, cl := range out.Classes {
		if !c.sampleClass[unit+":"+cl] && len(c.samples) < 40 {
			c.sampleClass[unit+":"+cl] = true
			want = true
		}
	}
	if want && len(c.samples) < 40 {
		if out.Sample != nil {
			raw = marshalSample(out.Sample)
		} else if raw == nil {
			raw = marshalSample(cs)
		}
		s, _ := json.Marshal(map[string]interface{}{
			"unit": unit, "classes": out.Classes, "case": raw})
		c.samples = append(c.samples, s)
	}
	return false
}

// ReplayFile is the on-disk form of a failing case.
type ReplayFile struct {
	Property string          `json:"property"`
	Unit     string          `json:"unit"`
	Sig      string          `json:"sig"`
	What     string          `json:"what"`
	Case     json.RawMessage `json:"case"`
}

// Violation writes a replay file for the case and books the violation.
func (c *Collector) Violation(unit string, cs interface{}, out Outcome, flaky bool) string {
	return c.violation(unit, cs, out, flaky, false)
}

func (c *Collector) violation(unit string, cs interface{}, out Outcome, flaky, provisional bool) string {
	data, _ := json.Marshal(cs)
	rf := ReplayFile{Property: c.Property, Unit: unit, Sig: out.Sig,
		What: out.Err, Case: data}
	body, _ := json.MarshalIndent(rf, "", " ")
	sum := sha1.Sum(append([]byte(unit+"\x00"), data...))
	dir := os.Getenv("VERIF_REPLAY_DIR")
	if dir == "" {
		dir = filepath.Join(VerifDir(), "replays", c.Property)
	}
	os.MkdirAll(dir, 0o755)
	path := filepath.Join(dir, unit+"-"+hex.EncodeToString(sum[:6])+".json")
	os.WriteFile(path, body, 0o644)
	c.mu.Lock()
	what := out.Err
	if len(what) > 2000 {
		what = what[:2000] + "…"
	}
	if !provisional {
		// The final (shrunk) case replaces the unit's provisional one.
		kept := c.violations[:0]
		for _, v := range c.violations {
			if v.Provisional && v.Unit == unit {
				if v.Replay != path {
					os.Remove(v.Replay)
				}
				continue
			}
			kept = append(kept, v)
		}
		c.violations = kept
	}
	c.violations = append(c.violations, violation{Unit: unit, Sig: out.Sig,
		What: what, Replay: path, Flaky: flaky, Provisional: provisional})
	c.mu.Unlock()
	c.Flush()
	return path
}

// Flush writes the side file for the driver.
func (c *Collector) Flush() {
	if c.out == "" {
		return
	}
	c.mu.Lock()
	defer c.mu.Unlock()
	hashes := make([]uint64, 0, len(c.distinct))
	for h := range c.distinct {
		hashes = append(hashes, h)
	}
	sort.Slice(hashes, func(i, j int) bool { return hashes[i] < hashes[j] })
	hb := make([]byte, 8*len(hashes))
	for i, h := range hashes {
		binary.LittleEndian.PutUint64(hb[8*i:], h)
	}
	os.WriteFile(c.out+".hashes", hb, 0o644)

	knownSamples := map[string]json.RawMessage{}
	for k, v := range c.knownSample {
		knownSamples[k] = v
	}
	doc := map[string]interface{}{
		"property":            c.Property,
		"tier":                c.Tier,
		"evaluations":         c.evals,
		"distinct_nontrivial": len(c.distinct),
		"units":               c.units,
		"classes":             c.classes,
		"counters":            c.counters,
		"skipped":             c.skipped,
		"samples":             c.samples,
		"violations":          c.violations,
		"known_seen":          c.knownSeen,
		"known_samples":       knownSamples,
		"notes":               c.notes,
	}
	data, _ := json.MarshalIndent(doc, "", " ")
	tmp := c.out + ".tmp"
	os.WriteFile(tmp, data, 0o644)
	os.Rename(tmp, c.out)
}

// ---------------------------------------------------------------------------

type unitRunner func(raw json.RawMessage) (interface{}, Outcome, error)

var (
	unitsMu  sync.Mutex
	unitsReg = map[string]unitRunner{}
)

// Register makes a unit replayable: TestReplay decodes the saved case into C
// and calls run, no generator library involved.
func Register[C any](unit string, run func(C) Outcome) {
	unitsMu.Lock()
	defer unitsMu.Unlock()
	unitsReg[unit] = func(raw json.RawMessage) (interface{}, Outcome, error) {
		var cs C
		if err := json.Unmarshal(raw, &cs); err != nil {
			return nil, Outcome{}, err
		}
		return cs, run(cs), nil
	}
}

// Check drives one unit with rapid: gen draws a case (pure data), run executes
// it.  A violation that is not a known finding fails the rapid property; rapid
// shrinks it, and the minimal failing case is written as a replay file.
func Check[C any](t *testing.T, c *Collector, unit string,
	gen func(*rapid.T) C, run func(C) Outcome) {

	Register(unit, run)

	var lastCase *C
	var lastOut Outcome
	var fails int

	ok := t.Run(unit, func(t *testing.T) {
		rapid.Check(t, func(rt *rapid.T) {
			cs := gen(rt)
			out := safeRun(run, cs)
			if c.Record(unit, cs, out) {
				cp := cs
				lastCase = &cp
				lastOut = out
				fails++
				if fails == 1 {
					c.violation(unit, cs, out, false, true)
				}
				rt.Fatalf("VIOLATION %s: %s", out.Sig, out.Err)
			}
		})
	})
	if lastCase != nil {
		// Re-run the (shrunk) case once more, without rapid, to see
		// whether it is deterministic.
		again := safeRun(run, *lastCase)
		flaky := again.Err == ""
		path := c.Violation(unit, *lastCase, lastOut, flaky)
		t.Logf("violation sig=%s replay=%s flaky=%v: %s", lastOut.Sig, path,
			flaky, lastOut.Err)
	} else if !ok {
		c.Note("unit %s: test failed without a recorded violation (see log)", unit)
	}
	c.Flush()
}

// Each drives a unit with an explicit (enumerated) list of cases.
func Each[C any](t *testing.T, c *Collector, unit string, cases func(yield func(C) bool),
	run func(C) Outcome) {

	Register(unit, run)
	reported := map[string]bool{}
	cases(func(cs C) bool {
		out := safeRun(run, cs)
		if c.Record(unit, cs, out) {
			if !reported[out.Sig] && len(reported) < 5 {
				reported[out.Sig] = true
				path := c.Violation(unit, cs, out, false)
				t.Errorf("violation sig=%s replay=%s: %s", out.Sig, path, out.Err)
			}
		}
		return true
	})
	c.Flush()
}

func safeRun[C any](run func(C) Outcome, cs C) (out Outcome) {
	defer func() {
		if r := recover(); r != nil {
			out = Outcome{
				Err:        fmt.Sprintf("panic: %v\n%s", r, shortStack()),
				Sig:        "panic/" + panicSite(),
				Nontrivial: true,
			}
		}
	}()
	return run(cs)
}

// Replay runs the replay file named by VERIF_REPLAY; when it names a directory
// (the committed regression corpus /verif/regress/<ID>), every *.json file in
// it, in name order.  Used by TestReplay of every harness package.
func Replay(t *testing.T, c *Collector) {
	path := os.Getenv("VERIF_REPLAY")
	if path == "" {
		t.Skip("VERIF_REPLAY not set")
	}
	defer c.Flush()
	if fi, err := os.Stat(path); err == nil && fi.IsDir() {
		names, _ := filepath.Glob(filepath.Join(path, "*.json"))
		sort.Strings(names)
		for _, n := range names {
			replayOne(t, c, n, true)
		}
		return
	}
	replayOne(t, c, path, false)
}

func replayOne(t *testing.T, c *Collector, path string, corpus bool) {
	fatal := t.Fatalf
	if corpus {
		// A stale corpus file must not make the check red.
		fatal = func(format string, a ...any) {
			c.Count("regress-unusable", 1)
			t.Logf(path+": "+format, a...)
		}
	}
	data, err := os.ReadFile(path)
	if err != nil {
		fatal("replay: %v", err)
		return
	}
	var rf ReplayFile
	if err := json.Unmarshal(data, &rf); err != nil {
		fatal("replay: %v", err)
		return
	}
	unitsMu.Lock()
	run, ok := unitsReg[rf.Unit]
	unitsMu.Unlock()
	if !ok {
		fatal("replay: unknown unit %q (units must be registered in init)", rf.Unit)
		return
	}
	var cs interface{}
	var out Outcome
	func() {
		defer func() {
			if r := recover(); r != nil {
				out = Outcome{Err: fmt.Sprintf("panic: %v\n%s", r, shortStack()),
					Sig: "panic/" + panicSite(), Nontrivial: true}
			}
		}()
		cs, out, err = run(rf.Case)
	}()
	if err != nil {
		fatal("replay: %v", err)
		return
	}
	if corpus {
		out.Classes = append(out.Classes, "regress")
	}
	if c.Record(rf.Unit, cs, out) {
		c.mu.Lock()
		c.violations = append(c.violations, violation{Unit: rf.Unit, Sig: out.Sig,
			What: out.Err, Replay: path})
		c.mu.Unlock()
		t.Errorf("replay reproduces: sig=%s: %s", out.Sig, out.Err)
	} else {
		t.Logf("%s: does not reproduce (outcome: err=%q skip=%q)", filepath.Base(path), out.Err, out.Skip)
	}
}
