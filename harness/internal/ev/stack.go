package ev

import (
	"fmt"
	"runtime"
	"strings"
)

// panicSite returns "pkg.Func" of the innermost frame that belongs to the
// code under test (module github.com/markkurossi/mpc) on the panicking
// goroutine's stack; it is used as the signature of a panic.
func panicSite() string {
	pcs := make([]uintptr, 64)
	n := runtime.Callers(2, pcs)
	frames := runtime.CallersFrames(pcs[:n])
	for {
		fr, more := frames.Next()
		if strings.Contains(fr.Function, "github.com/markkurossi/mpc") {
			fn := fr.Function
			if i := strings.LastIndex(fn, "/"); i >= 0 {
				fn = fn[i+1:]
			}
			return fn
		}
		if !more {
			break
		}
	}
	return "unknown"
}

func shortStack() string {
	pcs := make([]uintptr, 64)
	n := runtime.Callers(2, pcs)
	frames := runtime.CallersFrames(pcs[:n])
	var sb strings.Builder
	count := 0
	for {
		fr, more := frames.Next()
		if !strings.HasPrefix(fr.Function, "runtime.") {
			fmt.Fprintf(&sb, "  %s (%s:%d)\n", fr.Function, trimPath(fr.File), fr.Line)
			count++
		}
		if !more || count >= 14 {
			break
		}
	}
	return sb.String()
}

func trimPath(p string) string {
	if i := strings.Index(p, "/repo/"); i >= 0 {
		return p[i+6:]
	}
	if i := strings.Index(p, "/harness/"); i >= 0 {
		return p[i+1:]
	}
	return p
}

// PanicSite is exported for harnesses that recover panics on their own
// goroutines.
func PanicSite() string { return panicSite() }

// ShortStack is exported for harnesses that recover panics themselves.
func ShortStack() string { return shortStack() }
