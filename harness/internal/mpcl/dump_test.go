package mpcl

import (
	"fmt"
	"os"
	"strings"
	"testing"

	"pgregory.net/rapid"
)

// TestDump writes generated programs to $MPCL_DUMP (development aid).
func TestDump(t *testing.T) {
	path := os.Getenv("MPCL_DUMP")
	if path == "" {
		t.Skip("MPCL_DUMP not set")
	}
	f, _ := os.Create(path)
	defer f.Close()
	n := 0
	rapid.Check(t, func(rt *rapid.T) {
		o := Opts{MaxStmts: 10, MaxDepth: 3, Helpers: 2, Arrays: true, Structs: true, Loops: true, ArrayParams: true}
		if os.Getenv("MPCL_DUMP_PROFILE") == "c05" {
			o = Opts{NumParams: 2, MaxStmts: 9, MaxDepth: 2, Helpers: 1, Arrays: true,
				Structs: true, Loops: true, AliasHeavy: true, ScalarParams: true, MaxWidth: 70, StructParams: true}
		}
		p := Draw(rt, o)
		src := p.Source()
		n++
		fmt.Fprintf(f, "// ---- program %d mirrored=%v\n%s\n", n, strings.Contains(src, "} else {"), src)
	})
}
