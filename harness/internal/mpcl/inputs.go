package mpcl

import (
	"fmt"
	"math/big"
	"strings"

	"github.com/markkurossi/mpc/circuit"
	"pgregory.net/rapid"
)

// boundary returns the boundary bit patterns of an n-bit scalar.
func boundary(n int) []*big.Int {
	one := big.NewInt(1)
	all := mask(n)
	top := new(big.Int).Lsh(one, uint(n-1))
	alt := new(big.Int)
	for i := 0; i < n; i += 2 {
		alt.SetBit(alt, i, 1)
	}
	return []*big.Int{
		new(big.Int), new(big.Int).And(one, all), all, top,
		new(big.Int).Sub(top, one), alt, new(big.Int).Xor(alt, all),
	}
}

func drawScalar(t *rapid.T, n int) *big.Int {
	mode := rapid.IntRange(0, 99).Draw(t, "inmode")
	if mode < 40 {
		b := boundary(n)
		return b[rapid.IntRange(0, len(b)-1).Draw(t, "boundary")]
	}
	if mode < 60 {
		// Position-dependent patterns: the low k bits set (carry and
		// borrow chains of every length), a single bit, and their
		// complements.
		k := rapid.IntRange(0, n-1).Draw(t, "patpos")
		low := mask(k)
		bit := new(big.Int).Lsh(big.NewInt(1), uint(k))
		switch rapid.IntRange(0, 3).Draw(t, "patkind") {
		case 0:
			return low
		case 1:
			return new(big.Int).Xor(low, mask(n))
		case 2:
			return bit
		default:
			return new(big.Int).Xor(bit, mask(n))
		}
	}
	v := new(big.Int)
	for i := 0; i < n; i += 16 {
		chunk := uint64(rapid.IntRange(0, 65535).Draw(t, "inchunk"))
		v.Or(v, new(big.Int).Lsh(new(big.Int).SetUint64(chunk), uint(i)))
	}
	return v.And(v, mask(n))
}

func (p *Prog) drawValue(t *rapid.T, T Type) *big.Int {
	switch T.K {
	case KBool, KInt, KUint:
		if T.K != KBool && rapid.IntRange(0, 7).Draw(t, "inliteral") == 0 {
			// A value the program itself mentions (equality tests and
			// table look-ups with constants are only interesting on
			// those), or a neighbour of it.
			if lits := p.literals(); len(lits) > 0 {
				v := new(big.Int).Set(lits[rapid.IntRange(0, len(lits)-1).Draw(t, "inlit")])
				v.Add(v, big.NewInt(int64(rapid.SampledFrom([]int{0, 0, 0, -1, 1}).Draw(t, "inlitdelta"))))
				return Wrap(v, p.Bits(T))
			}
		}
		return drawScalar(t, p.Bits(T))
	case KArray:
		res := new(big.Int)
		eb := p.Bits(*T.E)
		for i := 0; i < T.N; i++ {
			res.Or(res, new(big.Int).Lsh(p.drawValue(t, *T.E), uint(i*eb)))
		}
		return res
	case KStruct:
		res := new(big.Int)
		ofs := 0
		for _, f := range p.Struct(T.S).Fields {
			res.Or(res, new(big.Int).Lsh(p.drawValue(t, f.T), uint(ofs)))
			ofs += p.Bits(f.T)
		}
		return res
	}
	panic("drawValue " + T.K)
}

// literals returns the values of the literals and package-level constants of
// the program (at most 64).
func (p *Prog) literals() []*big.Int {
	var res []*big.Int
	seen := map[string]bool{}
	add := func(val string) {
		if v, ok := new(big.Int).SetString(val, 0); ok && !seen[v.String()] && len(res) < 64 {
			seen[v.String()] = true
			res = append(res, v)
		}
	}
	for _, c := range p.Consts {
		add(c.Val)
	}
	var expr func(e *Expr)
	expr = func(e *Expr) {
		if e == nil {
			return
		}
		if e.Op == ELit {
			add(e.Val)
		}
		for _, a := range e.A {
			expr(a)
		}
	}
	var stmts func(list []*Stmt)
	stmts = func(list []*Stmt) {
		for _, s := range list {
			expr(s.E)
			for _, e := range s.Es {
				expr(e)
			}
			stmts(s.Then)
			stmts(s.Else)
			stmts(s.Body)
		}
	}
	for _, f := range p.Funcs {
		stmts(f.Body)
	}
	return res
}

// DrawInputs draws input vectors for main: all assignments when the inputs
// have at most 10 bits in total, else up to max drawn vectors (boundary values
// and random ones).
func DrawInputs(t *rapid.T, p *Prog, max int) [][]string {
	return DrawInputsN(t, p, 10, max)
}

// DrawInputsN is DrawInputs with a configurable exhaustive limit: all
// assignments when the inputs have at most exhBits bits in total.
func DrawInputsN(t *rapid.T, p *Prog, exhBits, max int) [][]string {
	main := p.Main()
	total := 0
	for _, pa := range main.Params {
		total += p.Bits(pa.T)
	}
	var res [][]string
	if total <= exhBits {
		for v := 0; v < 1<<total; v++ {
			var vec []string
			ofs := 0
			for _, pa := range main.Params {
				n := p.Bits(pa.T)
				vec = append(vec, fmt.Sprintf("0x%x", (v>>ofs)&(1<<n-1)))
				ofs += n
			}
			res = append(res, vec)
		}
		return res
	}
	n := max
	if max <= 16 {
		n = rapid.IntRange(2, max).Draw(t, "nvectors")
	}
	for i := 0; i < n; i++ {
		var vec []string
		for _, pa := range main.Params {
			vec = append(vec, "0x"+p.drawValue(t, pa.T).Text(16))
		}
		res = append(res, vec)
	}
	return res
}

// ParseInputs converts an input vector into interpreter values and packed
// bit patterns (one per parameter of main).
func ParseInputs(p *Prog, vec []string) ([]Value, []*big.Int, error) {
	main := p.Main()
	if len(vec) != len(main.Params) {
		return nil, nil, fmt.Errorf("%d values for %d parameters", len(vec), len(main.Params))
	}
	var vals []Value
	var packed []*big.Int
	for i, pa := range main.Params {
		v, ok := new(big.Int).SetString(vec[i], 0)
		if !ok {
			return nil, nil, fmt.Errorf("bad value %q", vec[i])
		}
		v.And(v, mask(p.Bits(pa.T)))
		packed = append(packed, v)
		vals = append(vals, p.Unpack(pa.T, v))
	}
	return vals, packed, nil
}

// CircuitInputs converts one packed value per circuit argument into the list
// Circuit.Compute expects (compound arguments flattened member by member).
func CircuitInputs(c *circuit.Circuit, packed []*big.Int) ([]*big.Int, error) {
	if len(c.Inputs) != len(packed) {
		return nil, fmt.Errorf("circuit has %d arguments, program has %d parameters",
			len(c.Inputs), len(packed))
	}
	var res []*big.Int
	for i, in := range c.Inputs {
		if len(in.Compound) == 0 {
			res = append(res, packed[i])
			continue
		}
		ofs := 0
		for _, m := range in.Compound {
			n := int(m.Type.Bits)
			v := new(big.Int).Rsh(packed[i], uint(ofs))
			res = append(res, v.And(v, mask(n)))
			ofs += n
		}
	}
	return res, nil
}

// Feat summarises the constructs a program uses (for class statistics and the
// non-triviality rule).
type Feat struct {
	Phi, EarlyReturn, Loop, Call, Array, Struct, Cast, Div, Mul, Shift, Shadow bool
	DynIndex                                                                   bool
	Composite                                                                  bool
	MaxWidth                                                                   int
	Stmts                                                                      int
}

// Features analyses a program.
func Features(p *Prog) Feat {
	var f Feat
	var expr func(e *Expr)
	expr = func(e *Expr) {
		if e == nil {
			return
		}
		if e.T.IsInt() && e.T.N > f.MaxWidth {
			f.MaxWidth = e.T.N
		}
		switch e.Op {
		case ECast:
			f.Cast = true
		case ECall:
			f.Call = true
		case EIndex:
			f.Array = true
		case EDynIndex:
			f.Array, f.DynIndex = true, true
		case EField:
			f.Struct = true
		case EComposite:
			f.Composite = true
			if e.T.K == KStruct {
				f.Struct = true
			} else {
				f.Array = true
			}
		case EBin:
			switch e.Name {
			case "/", "%":
				f.Div = true
			case "*":
				f.Mul = true
			case "<<", ">>":
				f.Shift = true
			}
		}
		for _, a := range e.A {
			expr(a)
		}
	}
	var stmts func(list []*Stmt, depth int, names map[string]bool)
	stmts = func(list []*Stmt, depth int, names map[string]bool) {
		local := map[string]bool{}
		for k := range names {
			local[k] = true
		}
		for i, s := range list {
			f.Stmts++
			expr(s.E)
			for _, e := range s.Es {
				expr(e)
			}
			switch s.K {
			case SIf:
				f.Phi = true
				stmts(s.Then, depth+1, local)
				stmts(s.Else, depth+1, local)
			case SFor, SForRange:
				f.Loop = true
				if s.K == SForRange {
					f.Array = true
				}
				stmts(s.Body, depth+1, local)
			case SReturn:
				if depth > 0 || i < len(list)-1 {
					f.EarlyReturn = true
				}
			case SCall:
				f.Call = true
			case SSetIndex:
				f.Array = true
			case SSetField:
				f.Struct = true
			case SVar, SDefine:
				if names[s.Name] {
					f.Shadow = true
				}
				local[s.Name] = true
			}
		}
	}
	for _, fn := range p.Funcs {
		stmts(fn.Body, 0, map[string]bool{})
	}
	return f
}

// Nontrivial implements the non-triviality rule of C03: at least one of
// {phi, early return, loop, call, array/struct operation}.
func (f Feat) Nontrivial() bool {
	return f.Phi || f.EarlyReturn || f.Loop || f.Call || f.Array || f.Struct
}

// Classes returns the class labels.
func (f Feat) Classes() []string {
	var c []string
	add := func(b bool, s string) {
		if b {
			c = append(c, s)
		}
	}
	add(f.Phi, "has-phi")
	add(f.EarlyReturn, "has-early-return")
	add(f.Loop, "has-loop")
	add(f.Call, "has-call")
	add(f.Array, "has-array")
	add(f.Struct, "has-struct")
	add(f.Cast, "has-cast")
	add(f.Div, "has-div")
	add(f.Mul, "has-mul")
	add(f.Shift, "has-shift")
	add(f.Shadow, "has-shadowing")
	add(f.DynIndex, "has-dynindex")
	add(f.Composite, "has-composite-literal")
	add(f.MaxWidth > 64, "width>64")
	add(f.Stmts >= 8, "stmts>=8")
	return c
}

// Sig is a coarse signature of the constructs in a failing program.
func (f Feat) Sig() string {
	var c []string
	for _, s := range f.Classes() {
		if strings.HasPrefix(s, "has-") {
			c = append(c, s[4:])
		}
	}
	if len(c) == 0 {
		return "straight-line"
	}
	return strings.Join(c, "+")
}
