package mpcl

import (
	"fmt"

	"pgregory.net/rapid"
)

// DrawPhiProg generates a program that is all about branch merging: two or
// three variables are assigned inside a random tree of nested if / else-if /
// else statements; assigned values and conditions come from small sets, so
// different paths frequently bind the same variable to the same value under
// different conditions, leave variables untouched on some paths, or assign
// different variables in different arms.  Every operator has at least one
// input-dependent operand (conditions compare against a parameter).
func DrawPhiProg(t *rapid.T, numParams int) *Prog {
	pick := func(n int, label string) int { return rapid.IntRange(0, n-1).Draw(t, label) }
	w := []int{2, 3, 7, 8, 9, 16, 31, 32, 33, 64, 65}[pick(11, "width")]
	var T Type
	if rapid.Bool().Draw(t, "signed") {
		T = Int(w)
	} else {
		T = Uint(w)
	}
	if numParams < 2 {
		numParams = 2
	}
	main := &Func{Name: "main"}
	var params []*Expr
	for i := 0; i < numParams; i++ {
		name := fmt.Sprintf("a%d", i)
		main.Params = append(main.Params, Param{Name: name, T: T})
		params = append(params, &Expr{Op: EVar, T: T, Name: name})
	}
	nvars := 2 + pick(2, "nvars")
	var vars []*Expr
	for i := 0; i < nvars; i++ {
		name := fmt.Sprintf("x%d", i)
		vars = append(vars, &Expr{Op: EVar, T: T, Name: name})
		// Initial values: a parameter or the zero value.
		s := &Stmt{K: SVar, Name: name, T: &T}
		if pick(3, "init") > 0 {
			s.E = params[pick(len(params), "initparam")]
		}
		main.Body = append(main.Body, s)
	}
	lit := func(v string) *Expr { return &Expr{Op: ELit, T: T, Val: v} }
	bin := func(op string, a, b *Expr) *Expr {
		return &Expr{Op: EBin, T: T, Name: op, A: []*Expr{a, b}}
	}
	value := func() *Expr {
		switch pick(8, "value") {
		case 0:
			return lit("0")
		case 1, 2:
			return lit("1")
		case 3:
			return params[pick(len(params), "valparam")]
		case 4:
			return params[0]
		case 5:
			return vars[pick(len(vars), "valvar")]
		case 6:
			return bin("+", params[0], params[1])
		default:
			return bin("^", vars[pick(len(vars), "valvar2")], params[pick(len(params), "valparam2")])
		}
	}
	cmps := []string{"<", ">", "==", "!=", "<=", ">="}
	cond := func() *Expr {
		l := params[pick(len(params), "condl")]
		var r *Expr
		switch pick(4, "condr") {
		case 0:
			r = lit("1")
		case 1:
			r = params[pick(len(params), "condrp")]
		case 2:
			r = lit("0")
		default:
			r = vars[pick(len(vars), "condrv")]
		}
		c := &Expr{Op: EBin, T: Bool(), Name: cmps[pick(len(cmps), "cmp")], A: []*Expr{l, r}}
		if pick(6, "condneg") == 0 {
			return &Expr{Op: EUn, T: Bool(), Name: "!", A: []*Expr{c}}
		}
		return c
	}
	budget := 14
	var seq func(depth int) []*Stmt
	var ifs func(depth int) *Stmt
	seq = func(depth int) []*Stmt {
		n := 1 + pick(3, "seqlen")
		var res []*Stmt
		for i := 0; i < n && budget > 0; i++ {
			budget--
			if depth < 3 && pick(10, "item") < 4 {
				res = append(res, ifs(depth+1))
			} else {
				v := vars[pick(len(vars), "target")]
				res = append(res, &Stmt{K: SAssign, Name: v.Name, E: value()})
			}
		}
		return res
	}
	ifs = func(depth int) *Stmt {
		s := &Stmt{K: SIf, E: cond(), Then: seq(depth)}
		switch pick(4, "else") {
		case 0:
		case 1:
			inner := ifs(depth)
			inner.Op = "elseif"
			s.Else = []*Stmt{inner}
		default:
			s.Else = seq(depth)
		}
		return s
	}
	nTop := 1 + pick(3, "ntop")
	for i := 0; i < nTop; i++ {
		main.Body = append(main.Body, ifs(1))
		if pick(3, "between") == 0 {
			v := vars[pick(len(vars), "target2")]
			main.Body = append(main.Body, &Stmt{K: SAssign, Name: v.Name, E: value()})
		}
	}
	ret := &Stmt{K: SReturn}
	for _, v := range vars {
		main.Results = append(main.Results, T)
		if pick(4, "retop") == 0 {
			ret.Es = append(ret.Es, bin("+", v, params[0]))
		} else {
			ret.Es = append(ret.Es, v)
		}
	}
	main.Body = append(main.Body, ret)
	return &Prog{Funcs: []*Func{main}}
}
