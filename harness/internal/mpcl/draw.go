package mpcl

import (
	"fmt"
	"math/big"
	"strings"

	"pgregory.net/rapid"

	"verifharness/internal/gen"
)

// Opts bounds the program generator.
type Opts struct {
	NumParams    int  // parameters of main (parties); 0 = draw 1..3
	MaxStmts     int  // statement budget of main
	MaxDepth     int  // expression depth
	Helpers      int  // maximal number of helper functions
	MaxWidth     int  // cap on integer widths (0 = 130)
	Arrays       bool // array locals / params / results
	Structs      bool
	Loops        bool
	DynIndex     bool
	MulHeavy     bool // C09 profile: many multiplications/divisions of widths 8..45
	AliasHeavy   bool // C05 profile: moves, constant shifts, array updates
	NoDiv        bool
	ArrayParams  bool
	ScalarParams bool   // main parameters are integer scalars only (no bool)
	Param0       *Type  // fixed type of main's first parameter
	StructParams bool   // main parameters may be of the program's struct type
	PkgConsts    bool   // untyped package-level constants, some named like main's parameters (which shadow them in main)
	PlainDiv     bool   // divisors without the `| 1` guard (callers skip zero-divisor inputs)
	PoolTypes    []Type // types added to the program's type pool
}

var widthTable = []int{1, 2, 3, 7, 8, 9, 15, 16, 17, 31, 32, 33, 63, 64, 65, 127, 128, 129, 130}

type varInfo struct {
	T   Type
	Dyn bool // certainly not a compile-time constant
	RO  bool // never assigned (parameters)
	// Param marks a struct parameter: its fields can be assigned (always
	// with input-dependent values), so they stay dynamic sources.
	Param bool
	// WO marks a named result that has not been assigned on every path
	// yet: the compiler does not zero-initialise named results (reading
	// one before its first assignment yields an undefined value) and no
	// annotated test program reads one early, so the generator does not
	// either.
	WO bool
	// NoAssign marks a local array while a range loop runs over it: it is
	// not assigned in the loop body, but - unlike a parameter - its
	// elements are not input-dependent for that reason.
	NoAssign bool
}

type scope map[string]*varInfo

type loopVar struct {
	name  string
	count int
}

// hiddenLoop is the count of a loop whose variable is not available to the
// body as an operand or index (outerLoopIdiom).
const hiddenLoop = 1 << 30

type gctx struct {
	t       *rapid.T
	o       Opts
	prog    *Prog
	pool    []Type // integer types of this program
	scopes  []scope
	loops   []loopVar
	fn      *Func
	nvar    int
	budget  int
	ifDepth int
	pending []*Stmt // statements that must directly follow the last one
	wantWO  bool    // visible() includes write-only named results
	sink    []named // variables that the final return of main must depend on
}

func (g *gctx) intn(lo, hi int, label string) int {
	return gen.UniformRange(g.t, lo, hi, label)
}

func (g *gctx) chance(pct int, label string) bool {
	return gen.Uniform(g.t, 100, label) < pct
}

func (g *gctx) pickType(label string) Type {
	return g.pool[g.intn(0, len(g.pool)-1, label)]
}

func (g *gctx) fresh() string {
	g.nvar++
	return fmt.Sprintf("v%d", g.nvar)
}

func (g *gctx) push()      { g.scopes = append(g.scopes, scope{}) }
func (g *gctx) pop()       { g.scopes = g.scopes[:len(g.scopes)-1] }
func (g *gctx) top() scope { return g.scopes[len(g.scopes)-1] }

func (g *gctx) lookup(name string) *varInfo {
	for i := len(g.scopes) - 1; i >= 0; i-- {
		if v, ok := g.scopes[i][name]; ok {
			return v
		}
	}
	return nil
}

type named struct {
	name string
	v    *varInfo
}

// visible returns the variables visible in the current scope (innermost
// declaration wins), in a deterministic order.
func (g *gctx) visible() []named {
	seen := map[string]bool{}
	var res []named
	for i := len(g.scopes) - 1; i >= 0; i-- {
		var names []string
		for n := range g.scopes[i] {
			names = append(names, n)
		}
		sortStrings(names)
		for _, n := range names {
			if !seen[n] {
				seen[n] = true
				if g.scopes[i][n].WO && !g.wantWO {
					continue
				}
				res = append(res, named{n, g.scopes[i][n]})
			}
		}
	}
	return res
}

func sortStrings(a []string) {
	for i := 1; i < len(a); i++ {
		for j := i; j > 0 && a[j] < a[j-1]; j-- {
			a[j], a[j-1] = a[j-1], a[j]
		}
	}
}

func cloneScopes(s []scope) []scope {
	res := make([]scope, len(s))
	for i, sc := range s {
		m := scope{}
		for k, v := range sc {
			cp := *v
			m[k] = &cp
		}
		res[i] = m
	}
	return res
}

// castOK tells whether T(src) is inside the modelled language.
func castOK(src, dst Type) bool {
	if !src.IsInt() || !dst.IsInt() {
		return false
	}
	if dst.N <= src.N {
		return true // narrowing or same width
	}
	if !src.Signed() {
		return true // zero-extension
	}
	return dst.Signed() // sign-extension signed -> signed
}

// ---------------------------------------------------------------------------
// Expressions.  Every generator returns the expression and whether it is
// certainly input-dependent ("dyn").  Invariant kept: no operator is ever
// applied to operands that are all compile-time constants (that is C12's
// domain), except literal shift counts.

func (g *gctx) literal(T Type) *Expr {
	// Values in [0, 2^(N-1)) so that the constant is representable in
	// both intN and uintN.
	n := T.N - 1
	if n <= 0 {
		return &Expr{Op: ELit, T: T, Val: "0"}
	}
	if len(g.prog.Consts) > 0 && g.fn != nil && g.chance(35, "pkgconst") {
		// A package-level constant.  Those named like parameters of
		// main are only visible outside main.
		var cands []ConstDef
		for _, c := range g.prog.Consts {
			v, _ := new(big.Int).SetString(c.Val, 0)
			if v.BitLen() > n {
				continue
			}
			if g.fn.Name == "main" && strings.HasPrefix(c.Name, "a") {
				continue
			}
			cands = append(cands, c)
		}
		if len(cands) > 0 {
			c := cands[g.intn(0, len(cands)-1, "pkgconstidx")]
			return &Expr{Op: ELit, T: T, Name: c.Name, Val: c.Val}
		}
	}
	var v *big.Int
	switch g.intn(0, 5, "litmode") {
	case 0:
		v = big.NewInt(0)
	case 1:
		v = big.NewInt(1)
	case 2:
		v = new(big.Int).Sub(new(big.Int).Lsh(big.NewInt(1), uint(n)), big.NewInt(1))
	case 3:
		k := g.intn(0, n-1, "litbit")
		v = new(big.Int).Lsh(big.NewInt(1), uint(k))
	default:
		lim := n
		if lim > 16 && g.chance(70, "litsmall") {
			lim = 16
		}
		v = new(big.Int)
		for i := 0; i < lim; i += 16 {
			chunk := uint64(g.intn(0, 65535, "litchunk"))
			v.Or(v, new(big.Int).Lsh(new(big.Int).SetUint64(chunk), uint(i)))
		}
		v.And(v, mask(lim))
	}
	s := v.String()
	if g.chance(25, "lithex") {
		s = "0x" + v.Text(16)
	}
	return &Expr{Op: ELit, T: T, Val: s}
}

// dynSource returns a certainly dynamic expression of integer type T built
// from a dynamic variable (cast when necessary).
func (g *gctx) dynSource(T Type) *Expr {
	vis := g.visible()
	var exact, other []named
	for _, nv := range vis {
		if !nv.v.Dyn {
			continue
		}
		if nv.v.T.Equal(T) {
			exact = append(exact, nv)
		} else if nv.v.T.IsInt() {
			other = append(other, nv)
		}
	}
	// Elements of read-only (parameter) arrays are dynamic too.
	var arrs []named
	for _, nv := range vis {
		if nv.v.RO && nv.v.T.K == KArray && nv.v.T.E.IsInt() {
			arrs = append(arrs, nv)
		}
	}
	// Fields of read-only (parameter) structs are dynamic as well.
	var fields []*Expr
	for _, nv := range vis {
		if (nv.v.RO || nv.v.Param) && nv.v.T.K == KStruct {
			for _, f := range g.prog.Struct(nv.v.T.S).Fields {
				if f.T.IsInt() {
					fields = append(fields, &Expr{Op: EField, T: f.T, Name: f.Name,
						A: []*Expr{{Op: EVar, T: nv.v.T, Name: nv.name}}})
				}
			}
		}
	}
	if len(fields) > 0 && (len(exact)+len(other)+len(arrs) == 0 || g.chance(25, "dynfield")) {
		return g.castTo(fields[g.intn(0, len(fields)-1, "dynfieldidx")], T)
	}
	if len(exact) > 0 && (len(other) == 0 || g.chance(80, "dynexact")) {
		nv := exact[g.intn(0, len(exact)-1, "dynvar")]
		return &Expr{Op: EVar, T: T, Name: nv.name}
	}
	var src *Expr
	if len(other) > 0 && (len(arrs) == 0 || g.chance(75, "dynscalar")) {
		nv := other[g.intn(0, len(other)-1, "dynvar2")]
		src = &Expr{Op: EVar, T: nv.v.T, Name: nv.name}
	} else if len(arrs) > 0 {
		nv := arrs[g.intn(0, len(arrs)-1, "dynarr")]
		src = &Expr{Op: EIndex, T: *nv.v.T.E, Idx: g.intn(0, nv.v.T.N-1, "dynidx"),
			A: []*Expr{{Op: EVar, T: nv.v.T, Name: nv.name}}}
	} else if len(exact) > 0 {
		nv := exact[0]
		return &Expr{Op: EVar, T: T, Name: nv.name}
	} else {
		panic("generator: no dynamic integer source in scope")
	}
	return g.castTo(src, T)
}

func (g *gctx) castTo(src *Expr, T Type) *Expr {
	if src.T.Equal(T) {
		return src
	}
	if castOK(src.T, T) {
		return &Expr{Op: ECast, T: T, A: []*Expr{src}}
	}
	// signed -> wider unsigned: reinterpret at the same width first.
	mid := Uint(src.T.N)
	return &Expr{Op: ECast, T: T, A: []*Expr{{Op: ECast, T: mid, A: []*Expr{src}}}}
}

// leaf returns a leaf of integer type T.
func (g *gctx) leaf(T Type, needDyn bool) (*Expr, bool) {
	if needDyn {
		return g.dynSource(T), true
	}
	type cand struct {
		e   *Expr
		dyn bool
	}
	var cands []cand
	for _, nv := range g.visible() {
		switch {
		case nv.v.T.Equal(T):
			cands = append(cands, cand{&Expr{Op: EVar, T: T, Name: nv.name}, nv.v.Dyn})
		case nv.v.T.K == KArray && nv.v.T.E.Equal(T):
			av := &Expr{Op: EVar, T: nv.v.T, Name: nv.name}
			if n := nv.v.T.N; g.o.DynIndex && (n == 2 || n == 4 || n == 8) && g.chance(40, "dynidx") {
				// Input-dependent index, masked into range:
				// arr[x & (len-1)] with x of a type that can
				// hold the mask as a non-negative constant.
				var U *Type
				for i := range g.pool {
					if g.pool[i].N >= 4 {
						U = &g.pool[i]
						break
					}
				}
				if U != nil {
					idx := &Expr{Op: EBin, T: *U, Name: "&", A: []*Expr{g.dynSource(*U),
						{Op: ELit, T: *U, Val: fmt.Sprint(n - 1)}}}
					cands = append(cands, cand{&Expr{Op: EDynIndex, T: T, A: []*Expr{av, idx}}, false})
					continue
				}
			}
			if len(g.loops) > 0 && g.loops[len(g.loops)-1].count <= nv.v.T.N && g.chance(60, "idxloop") {
				cands = append(cands, cand{&Expr{Op: EIndex, T: T,
					Name: g.loops[len(g.loops)-1].name, A: []*Expr{av}}, false})
			} else {
				cands = append(cands, cand{&Expr{Op: EIndex, T: T,
					Idx: g.intn(0, nv.v.T.N-1, "idx"), A: []*Expr{av}}, nv.v.RO})
			}
		case nv.v.T.K == KStruct:
			sd := g.prog.Struct(nv.v.T.S)
			for _, f := range sd.Fields {
				if f.T.Equal(T) {
					cands = append(cands, cand{&Expr{Op: EField, T: T, Name: f.Name,
						A: []*Expr{{Op: EVar, T: nv.v.T, Name: nv.name}}}, false})
				}
			}
		}
	}
	k := g.intn(0, len(cands)+2, "leaf")
	if k < len(cands) {
		return cands[k].e, cands[k].dyn
	}
	if k == len(cands) && len(g.loops) > 0 && T.N >= 4 {
		lv := g.loops[g.intn(0, len(g.loops)-1, "loopvar")]
		if lv.count != hiddenLoop {
			return &Expr{Op: ELoopVar, T: T, Name: lv.name}, false
		}
	}
	if k == len(cands)+1 {
		return g.dynSource(T), true
	}
	return g.literal(T), false
}

var arithOps = []string{"+", "-", "*", "&", "|", "^", "&^", "/", "%"}

func (g *gctx) intExpr(T Type, depth int, needDyn bool) (*Expr, bool) {
	if depth <= 0 {
		return g.leaf(T, needDyn)
	}
	k := g.intn(0, 99, "intexpr")
	switch {
	case k < 28:
		return g.leaf(T, needDyn)
	case k < 70:
		ops := arithOps
		if g.o.NoDiv || T.N < 2 {
			ops = arithOps[:7]
		}
		op := ops[g.intn(0, len(ops)-1, "arith")]
		if g.o.MulHeavy && g.chance(50, "mulheavy") {
			op = []string{"*", "*", "/", "%"}[g.intn(0, 3, "mulop")]
			if g.o.NoDiv || T.N < 2 {
				op = "*"
			}
		}
		if op == "/" || op == "%" {
			l, _ := g.intExpr(T, depth-1, false)
			r, _ := g.intExpr(T, depth-1, true)
			if g.o.PlainDiv && g.chance(50, "plaindiv") {
				// Divisor as it is: input vectors on which it
				// is zero are skipped by the checks (division
				// by zero has no defined meaning).
				return &Expr{Op: EBin, T: T, Name: op, A: []*Expr{l, r}}, true
			}
			one := &Expr{Op: ELit, T: T, Val: "1"}
			div := &Expr{Op: EBin, T: T, Name: "|", A: []*Expr{r, one}}
			return &Expr{Op: EBin, T: T, Name: op, A: []*Expr{l, div}}, true
		}
		ldyn := g.chance(50, "ldyn")
		l, ld := g.intExpr(T, depth-1, ldyn)
		r, rd := g.intExpr(T, depth-1, !ld)
		_ = rd
		return &Expr{Op: EBin, T: T, Name: op, A: []*Expr{l, r}}, true
	case k < 78:
		op := "<<"
		if g.chance(50, "shr") {
			op = ">>"
		}
		x, _ := g.intExpr(T, depth-1, true)
		cnt := g.intn(0, T.N+2, "shift")
		return &Expr{Op: EBin, T: T, Name: op, A: []*Expr{x,
			{Op: ELit, T: Uint(32), Val: fmt.Sprint(cnt)}}}, true
	case k < 83:
		x, _ := g.intExpr(T, depth-1, true)
		return &Expr{Op: EUn, T: T, Name: "-", A: []*Expr{x}}, true
	case k < 94:
		// Cast from another type of the pool.
		S := g.pickType("castsrc")
		x, _ := g.intExpr(S, depth-1, true)
		return g.castTo(x, T), true
	default:
		// Call of a helper with a single integer result.
		var fs []*Func
		for _, f := range g.prog.Funcs {
			if f != g.fn && len(f.Results) == 1 && f.Results[0].IsInt() && g.callable(f) {
				fs = append(fs, f)
			}
		}
		if len(fs) == 0 {
			return g.leaf(T, needDyn)
		}
		f := fs[g.intn(0, len(fs)-1, "callee")]
		call := &Expr{Op: ECall, T: f.Results[0], Name: f.Name}
		for _, pa := range f.Params {
			call.A = append(call.A, g.argFor(pa.T, depth-1))
		}
		return g.castTo(call, T), true
	}
}

// argFor builds a dynamic argument of the given type.
func (g *gctx) argFor(T Type, depth int) *Expr {
	switch {
	case T.IsInt():
		x, _ := g.intExpr(T, depth, true)
		return x
	case T.K == KBool:
		x, _ := g.boolExpr(depth, true)
		return x
	case T.K == KArray || T.K == KStruct:
		for _, nv := range g.visible() {
			if nv.v.T.Equal(T) {
				return &Expr{Op: EVar, T: T, Name: nv.name}
			}
		}
	}
	panic("generator: unsupported argument type " + T.String())
}

var cmpOps = []string{"==", "!=", "<", "<=", ">", ">="}

func (g *gctx) boolExpr(depth int, needDyn bool) (*Expr, bool) {
	k := g.intn(0, 99, "boolexpr")
	if depth <= 0 {
		k = 0
	}
	switch {
	case k < 60:
		T := g.pickType("cmptype")
		op := cmpOps[g.intn(0, len(cmpOps)-1, "cmp")]
		ldyn := g.chance(50, "ldyn")
		l, ld := g.intExpr(T, depth-1, ldyn)
		r, _ := g.intExpr(T, depth-1, !ld)
		return &Expr{Op: EBin, T: Bool(), Name: op, A: []*Expr{l, r}}, true
	case k < 80:
		op := "&&"
		if g.chance(50, "or") {
			op = "||"
		}
		l, _ := g.boolExpr(depth-1, true)
		r, _ := g.boolExpr(depth-1, true)
		return &Expr{Op: EBin, T: Bool(), Name: op, A: []*Expr{l, r}}, true
	case k < 88:
		x, _ := g.boolExpr(depth-1, true)
		return &Expr{Op: EUn, T: Bool(), Name: "!", A: []*Expr{x}}, true
	default:
		var cands []named
		for _, nv := range g.visible() {
			if nv.v.T.K == KBool && (nv.v.Dyn || !needDyn) {
				cands = append(cands, nv)
			}
		}
		if len(cands) == 0 {
			return g.boolExpr(0, needDyn)
		}
		nv := cands[g.intn(0, len(cands)-1, "boolvar")]
		return &Expr{Op: EVar, T: Bool(), Name: nv.name}, nv.v.Dyn
	}
}

// expr builds an expression of type T (scalar).
func (g *gctx) expr(T Type, needDyn bool) (*Expr, bool) {
	if g.o.AliasHeavy && T.IsInt() && g.chance(45, "alias") {
		// Plain copies, constant shifts and casts: the instructions
		// that only rename wires (mov/smov/lshift/rshift/slice).
		src := g.dynSource(T)
		switch g.intn(0, 3, "aliaskind") {
		case 0:
			return src, true
		case 1:
			op := "<<"
			if g.chance(50, "aliasshr") {
				op = ">>"
			}
			return &Expr{Op: EBin, T: T, Name: op, A: []*Expr{src,
				{Op: ELit, T: Uint(32), Val: fmt.Sprint(g.intn(0, T.N, "aliasshift"))}}}, true
		default:
			S := g.pickType("aliascast")
			return g.castTo(g.dynSource(S), T), true
		}
	}
	d := g.intn(0, g.o.MaxDepth, "depth")
	if T.K == KBool {
		return g.boolExpr(d, needDyn)
	}
	return g.intExpr(T, d, needDyn)
}

// rhs builds the right-hand side of an assignment: dynamic, or (outside loops)
// occasionally a bare literal.
func (g *gctx) rhs(T Type) (*Expr, bool) {
	commonPct := 22
	if g.ifDepth%100 > 0 {
		commonPct = 40
	}
	if T.IsInt() && g.chance(commonPct, "common") {
		// Values that recur: the same small literal or the same
		// variable assigned on several paths (merges of equal values).
		if len(g.loops) == 0 && T.N >= 2 && g.chance(50, "commonlit") {
			return &Expr{Op: ELit, T: T, Val: []string{"0", "1"}[g.intn(0, 1, "commonval")]}, false
		}
		var cands []named
		for _, nv := range g.visible() {
			if nv.v.T.Equal(T) && nv.v.Dyn {
				cands = append(cands, nv)
			}
		}
		if len(cands) > 0 {
			nv := cands[g.intn(0, min(len(cands)-1, 1), "commonvar")]
			return &Expr{Op: EVar, T: T, Name: nv.name}, true
		}
	}
	if T.IsInt() && len(g.loops) == 0 && g.chance(12, "barelit") {
		return g.literal(T), false
	}
	return g.expr(T, true)
}

// ---------------------------------------------------------------------------
// Statements.

func (g *gctx) scalarType() Type {
	if g.chance(15, "booltype") {
		return Bool()
	}
	return g.pickType("vartype")
}

// newName returns a fresh name.  Names are unique per program: MPCL has no
// block-level scoping (a `var x` in a nested block rebinds the function-level
// x and `x :=` of an existing name is rejected), and neither the documentation
// nor the annotated test programs fix what redeclaration in a nested block
// means, so the generator never redeclares a visible name.
func (g *gctx) newName() string {
	return g.fresh()
}

func (g *gctx) assignable(pred func(Type) bool) []named {
	var res []named
	g.wantWO = true
	vis := g.visible()
	g.wantWO = false
	for _, nv := range vis {
		if !nv.v.RO && !nv.v.NoAssign && pred(nv.v.T) {
			res = append(res, nv)
		}
	}
	return res
}

func isScalar(t Type) bool { return t.K == KBool || t.IsInt() }

// stmt generates one statement; terminated tells that the rest of the block
// is unreachable (all paths returned).
func (g *gctx) stmt() (*Stmt, bool) {
	if len(g.pending) > 0 {
		st := g.pending[0]
		g.pending = g.pending[1:]
		return st, false
	}
	g.budget--
	if g.o.AliasHeavy && len(g.loops) == 0 && g.chance(18, "aliasidiom") {
		if g.chance(40, "structidiom") {
			if st := g.structIdiom(); st != nil {
				return st, false
			}
		}
		if g.o.Arrays && g.chance(25, "copystoreidiom") {
			return g.copyStoreIdiom(), false
		}
		if g.chance(20, "topaliasidiom") {
			if st := g.topAliasIdiom(); st != nil {
				return st, false
			}
		}
		return g.aliasIdiom(), false
	}
	if g.o.Arrays && len(g.loops) == 0 && g.ifDepth%100 == 0 && g.chance(4, "nestedarridiom") {
		return g.nestedArrayIdiom(), false
	}
	if (g.o.Structs || g.o.Arrays) && len(g.loops) == 0 && g.chance(5, "storelitidiom") {
		if st := g.storeLiteralIdiom(); st != nil {
			return st, false
		}
	}
	if g.o.Arrays && g.o.Loops && len(g.loops) == 0 && g.ifDepth%100 == 0 && g.chance(6, "outerloopidiom") {
		if st := g.outerLoopIdiom(); st != nil {
			return st, false
		}
	}
	k := g.intn(0, 99, "stmt")
	if g.ifDepth%100 > 0 && g.chance(60, "branchprofile") {
		// Inside a branch: mostly assignments to variables of the
		// enclosing scopes and further (nested) branches, the shapes
		// that produce phis of phis.
		k = []int{30, 35, 40, 45, 47, 50, 57, 72, 75, 80, 83}[g.intn(0, 10, "branchstmt")]
	}
	switch {
	case k < 14: // var declaration
		T := g.scalarType()
		name := g.newName()
		s := &Stmt{K: SVar, Name: name, T: &T}
		dyn := false
		if g.chance(60, "varinit") {
			s.E, dyn = g.rhs(T)
		}
		g.top()[name] = &varInfo{T: T, Dyn: dyn}
		return s, false
	case k < 30: // define
		T := g.scalarType()
		e, dyn := g.expr(T, true)
		name := g.newName()
		g.top()[name] = &varInfo{T: T, Dyn: dyn}
		if len(g.loops) > 0 {
			// `x := e` in a loop body is rejected by the compiler
			// from the second unrolled iteration on ("no new
			// variables on left side of :="); the library code
			// uses `var` there, and so does the generator.
			return &Stmt{K: SVar, Name: name, T: &T, E: e}, false
		}
		return &Stmt{K: SDefine, Name: name, E: e}, false
	case k < 48: // assign
		c := g.assignable(isScalar)
		if len(c) == 0 {
			return g.stmt()
		}
		nv := c[g.intn(0, len(c)-1, "target")]
		if g.ifDepth%100 > 0 && g.chance(50, "firsttarget") {
			// Inside branches prefer one variable so that several
			// paths assign the same one.
			nv = c[len(c)-1]
		}
		e, dyn := g.rhs(nv.v.T)
		nv.v.Dyn = dyn
		if nv.v.WO && g.ifDepth%100 == 0 && len(g.loops) == 0 {
			nv.v.WO = false // assigned on every path from here on
		}
		return &Stmt{K: SAssign, Name: nv.name, E: e}, false
	case k < 56: // op-assign
		var c []named
		for _, nv := range g.assignable(func(t Type) bool { return t.IsInt() }) {
			if !nv.v.WO {
				c = append(c, nv)
			}
		}
		if len(c) == 0 {
			return g.stmt()
		}
		nv := c[g.intn(0, len(c)-1, "target")]
		op := []string{"+", "-", "*", "&", "|", "^"}[g.intn(0, 5, "opassign")]
		e, _ := g.expr(nv.v.T, true)
		nv.v.Dyn = true
		return &Stmt{K: SOpAssign, Name: nv.name, Op: op, E: e}, false
	case k < 64 && g.o.Arrays: // array element assignment / declaration
		c := g.assignable(func(t Type) bool { return t.K == KArray && t.E.IsInt() })
		if len(c) == 0 || g.chance(30, "newarr") {
			T := Array(g.arrayLen(), g.pickType("elemtype"))
			name := g.fresh()
			g.top()[name] = &varInfo{T: T}
			return g.declAggregate(name, T), false
		}
		nv := c[g.intn(0, len(c)-1, "arr")]
		e, _ := g.expr(*nv.v.T.E, true)
		if nv.v.T.E.IsInt() && !nv.v.Param && g.chance(20, "storelit") {
			// a constant stored into an element of a local array
			e = g.plainLiteral(*nv.v.T.E)
		}
		s := &Stmt{K: SSetIndex, Name: nv.name, E: e}
		if len(g.loops) > 0 && g.loops[len(g.loops)-1].count <= nv.v.T.N && g.chance(60, "setloopidx") {
			s.LoopIdx = g.loops[len(g.loops)-1].name
		} else {
			s.Idx = g.intn(0, nv.v.T.N-1, "setidx")
		}
		return s, false
	case k < 72 && g.o.Structs && len(g.prog.Structs) > 0:
		c := g.assignable(func(t Type) bool { return t.K == KStruct })
		if len(c) == 0 || g.chance(25, "newstruct") {
			sd := g.prog.Structs[g.intn(0, len(g.prog.Structs)-1, "structtype")]
			T := Type{K: KStruct, S: sd.Name}
			name := g.fresh()
			g.top()[name] = &varInfo{T: T}
			return g.declAggregate(name, T), false
		}
		nv := c[g.intn(0, len(c)-1, "struct")]
		sd := g.prog.Struct(nv.v.T.S)
		f := sd.Fields[g.intn(0, len(sd.Fields)-1, "field")]
		e, _ := g.expr(f.T, true)
		if f.T.IsInt() && !nv.v.Param && g.chance(25, "storelit") {
			// a constant stored into a field of a local struct (the
			// fields of struct parameters stay input-dependent)
			e = g.plainLiteral(f.T)
		}
		return &Stmt{K: SSetField, Name: nv.name, Field: f.Name, E: e}, false
	case k < 84 && g.ifDepth < 3:
		return g.ifStmt()
	case k < 92 && g.o.Loops && len(g.loops) < 2:
		return g.forStmt(), false
	case k < 97:
		// Multi-result call.
		var fs []*Func
		for _, f := range g.prog.Funcs {
			if f != g.fn && (len(f.Results) >= 2 || !isScalar(f.Results[0])) && g.callable(f) {
				fs = append(fs, f)
			}
		}
		if len(fs) == 0 || len(g.loops) > 0 {
			return g.stmt()
		}
		f := fs[g.intn(0, len(fs)-1, "callee")]
		s := &Stmt{K: SCall, Fn: f.Name}
		for _, pa := range f.Params {
			s.Es = append(s.Es, g.argFor(pa.T, g.intn(0, g.o.MaxDepth, "argdepth")))
		}
		for _, r := range f.Results {
			name := g.fresh()
			s.Names = append(s.Names, name)
			g.top()[name] = &varInfo{T: r, Dyn: true}
		}
		return s, false
	default:
		return g.stmt()
	}
}

// plainLiteral draws a literal of type T that is not a package-level constant.
func (g *gctx) plainLiteral(T Type) *Expr {
	saved := g.prog.Consts
	g.prog.Consts = nil
	e := g.literal(T)
	g.prog.Consts = saved
	return e
}

// declAggregate declares a local array or struct variable: zero valued, or
// (two times in five, outside loop bodies) initialised with a constant
// composite literal whose elements are literals of the element / field types.
// Several such literals of one type with different values in one program are
// the point: the compiler keeps constants in a table keyed by their name.
func (g *gctx) declAggregate(name string, T Type) *Stmt {
	scalarElems := true
	var ets []Type
	var names []string
	switch T.K {
	case KArray:
		for i := 0; i < T.N; i++ {
			ets = append(ets, *T.E)
		}
	case KStruct:
		for _, f := range g.prog.Struct(T.S).Fields {
			ets = append(ets, f.T)
			names = append(names, f.Name)
		}
	}
	for _, et := range ets {
		if !et.IsInt() {
			scalarElems = false
		}
	}
	if !scalarElems || len(ets) == 0 || len(g.loops) > 0 || !g.chance(40, "compositelit") {
		return &Stmt{K: SVar, Name: name, T: &T}
	}
	e := &Expr{Op: EComposite, T: T}
	saved := g.prog.Consts
	g.prog.Consts = nil // plain literals only
	for _, et := range ets {
		e.A = append(e.A, g.literal(et))
	}
	g.prog.Consts = saved
	if T.K == KStruct && g.chance(70, "keyed") {
		e.Name = strings.Join(names, ",")
	}
	decl := func(name string, e *Expr) *Stmt {
		if g.chance(50, "compositevar") {
			return &Stmt{K: SVar, Name: name, T: &T, E: e}
		}
		return &Stmt{K: SDefine, Name: name, E: e}
	}
	first := decl(name, e)
	if g.chance(60, "compositetwin") {
		// A second variable of the same type with another literal, and a
		// value that reads one member of each.
		e2 := &Expr{Op: EComposite, T: T, Name: e.Name}
		g.prog.Consts = nil
		for _, et := range ets {
			e2.A = append(e2.A, g.literal(et))
		}
		g.prog.Consts = saved
		twin := g.fresh()
		g.top()[twin] = &varInfo{T: T}
		g.pending = append(g.pending, decl(twin, e2))
		i := g.intn(0, len(ets)-1, "twinmember")
		member := func(v string) *Expr {
			av := &Expr{Op: EVar, T: T, Name: v}
			if T.K == KArray {
				return &Expr{Op: EIndex, T: ets[i], Idx: i, A: []*Expr{av}}
			}
			return &Expr{Op: EField, T: ets[i], Name: names[i], A: []*Expr{av}}
		}
		t := g.fresh()
		et := &Expr{Op: EBin, T: ets[i], Name: "^", A: []*Expr{
			{Op: EBin, T: ets[i], Name: "+", A: []*Expr{g.dynSource(ets[i]), member(name)}}, member(twin)}}
		g.top()[t] = &varInfo{T: ets[i], Dyn: true}
		g.pending = append(g.pending, &Stmt{K: SDefine, Name: t, E: et})
		if g.fn.Name == "main" && g.ifDepth%100 == 0 {
			g.sink = append(g.sink, named{t, g.top()[t]})
		}
	}
	return first
}

// nestedArrayIdiom emits
//
//	var mN [R][C]T
//	mN[i][j] = <dynamic>          (two element stores, outer index mostly non-zero)
//	mN[i2][j2] = <dynamic>
//	vB := (mN[i][j] + mN[i2][j2]) ^ mN[0][j]
//
// element stores into an array of arrays.
func (g *gctx) nestedArrayIdiom() *Stmt {
	T := g.pickType("nestedelem")
	rows, cols := g.intn(2, 3, "rows"), g.intn(2, 3, "cols")
	inner := Array(cols, T)
	MT := Array(rows, inner)
	m := g.fresh()
	g.top()[m] = &varInfo{T: MT}
	first := &Stmt{K: SVar, Name: m, T: &MT}
	i, j := g.intn(1, rows-1, "ni"), g.intn(0, cols-1, "nj")
	i2, j2 := g.intn(0, rows-1, "ni2"), g.intn(0, cols-1, "nj2")
	if i2 == i && j2 == j {
		j2 = (j + 1) % cols
	}
	e1, _ := g.expr(T, true)
	e2, _ := g.expr(T, true)
	g.pending = append(g.pending, &Stmt{K: SSetIndex, Name: m, Idx: i, Idx2: j + 1, E: e1})
	g.pending = append(g.pending, &Stmt{K: SSetIndex, Name: m, Idx: i2, Idx2: j2 + 1, E: e2})
	el := func(r, c int) *Expr {
		row := &Expr{Op: EIndex, T: inner, Idx: r, A: []*Expr{{Op: EVar, T: MT, Name: m}}}
		return &Expr{Op: EIndex, T: T, Idx: c, A: []*Expr{row}}
	}
	vb := g.fresh()
	e := &Expr{Op: EBin, T: T, Name: "^", A: []*Expr{
		{Op: EBin, T: T, Name: "+", A: []*Expr{g.dynSource(T), {Op: EBin, T: T, Name: "+", A: []*Expr{el(i, j), el(i2, j2)}}}},
		el(0, j)}}
	g.top()[vb] = &varInfo{T: T, Dyn: true}
	g.pending = append(g.pending, &Stmt{K: SDefine, Name: vb, E: e})
	if g.fn.Name == "main" {
		g.sink = append(g.sink, named{vb, g.top()[vb]})
	}
	return first
}

// topAliasIdiom emits
//
//	vQ := (<dyn U> + 1) ^ (<dyn U> + 2)    (dead temporaries as wide as U)
//	vX := <dyn T> * <dyn T>                (a new value of the wide type T)
//	vS := U(vX >> (N-M)) + vQ              (an alias of the top bits of vX, dead after this)
//	vF := <dyn W> + 1                      (a new value of another width)
//	vZ := vX + <dyn T>                     (vX is still live)
//
// an alias window that ends at the top of its source value and dies before
// the source does, followed by an allocation of a new width.
func (g *gctx) topAliasIdiom() *Stmt {
	var wide []Type
	for _, P := range g.pool {
		if P.N >= 6 {
			wide = append(wide, P)
		}
	}
	if len(wide) == 0 {
		return nil
	}
	T := wide[g.intn(0, len(wide)-1, "tatype")]
	M := g.intn(3, T.N-1, "tanarrow")
	if T.N >= 16 && g.chance(50, "tahalf") {
		M = T.N / 2
	}
	U := Type{K: T.K, N: M}
	W := g.pickType("taother")
	lit := func(T Type, v string) *Expr { return &Expr{Op: ELit, T: T, Val: v} }
	bin := func(T Type, op string, a, b *Expr) *Expr { return &Expr{Op: EBin, T: T, Name: op, A: []*Expr{a, b}} }
	// All operands are drawn before the new names exist in the scope.
	u1, u2 := g.dynSource(U), g.dynSource(U)
	t1, t2, t3 := g.dynSource(T), g.dynSource(T), g.dynSource(T)
	w1 := g.dynSource(W)
	def := func(T Type, e *Expr) string {
		name := g.fresh()
		g.top()[name] = &varInfo{T: T, Dyn: true}
		g.pending = append(g.pending, &Stmt{K: SDefine, Name: name, E: e})
		return name
	}
	q := g.fresh()
	g.top()[q] = &varInfo{T: U, Dyn: true}
	first := &Stmt{K: SDefine, Name: q, E: bin(U, "^", bin(U, "+", u1, lit(U, "1")), bin(U, "+", u2, lit(U, "2")))}
	op := "*"
	if g.chance(30, "taadd") {
		op = "+"
	}
	x := def(T, bin(T, op, t1, t2))
	xv := &Expr{Op: EVar, T: T, Name: x}
	top := &Expr{Op: ECast, T: U, A: []*Expr{bin(T, ">>", xv, lit(Uint(32), fmt.Sprint(T.N-M)))}}
	sv := def(U, bin(U, "+", top, &Expr{Op: EVar, T: U, Name: q}))
	f := def(W, bin(W, "+", w1, lit(W, "1")))
	if W.N == 1 && W.Signed() {
		// int1 holds 0 and -1 only.
		g.pending[len(g.pending)-1].E = bin(W, "^", w1, w1)
	}
	z := def(T, bin(T, "+", xv, t3))
	if g.fn.Name == "main" && g.ifDepth%100 == 0 {
		g.sink = append(g.sink, named{sv, g.top()[sv]}, named{f, g.top()[f]}, named{z, g.top()[z]})
	}
	return first
}

// copyStoreIdiom emits
//
//	vY := <dynamic> + <dynamic>
//	[var vB [n]T; vB[i] = <dynamic> ...]   (unless an input array of T is in scope)
//	vC := vB                               (a copy that aliases the wires of vB)
//	vC[k] = vY                             (dynamic value into a dynamic array)
//	vW := vC[k]                            (last use of the copy)
//	vR := vW + ((vY * 3) ^ <dynamic>)      (last use of the stored value)
//	vZ := vB[j] ^ vR                       (the old array is still live here)
//
// the shape in which a collector of dead values has to follow an alias chain
// (vW -> vC -> vB and vY) whose liveness differs from step to step.
func (g *gctx) copyStoreIdiom() *Stmt {
	T := g.pickType("cstype")
	var arrs []named
	for _, nv := range g.visible() {
		if nv.v.RO && nv.v.T.K == KArray && nv.v.T.E.Equal(T) && nv.v.T.N >= 2 {
			arrs = append(arrs, nv)
		}
	}
	y := g.fresh()
	first := &Stmt{K: SDefine, Name: y, E: &Expr{Op: EBin, T: T, Name: "+", A: []*Expr{g.dynSource(T), g.dynSource(T)}}}
	g.top()[y] = &varInfo{T: T, Dyn: true}
	var b string
	var AT Type
	if len(arrs) > 0 && g.chance(60, "csparam") {
		nv := arrs[g.intn(0, len(arrs)-1, "csarr")]
		b, AT = nv.name, nv.v.T
	} else {
		AT = Array(g.intn(2, 5, "cslen"), T)
		b = g.fresh()
		g.top()[b] = &varInfo{T: AT, NoAssign: true}
		g.pending = append(g.pending, &Stmt{K: SVar, Name: b, T: &AT})
		for i := 0; i < AT.N; i++ {
			g.pending = append(g.pending, &Stmt{K: SSetIndex, Name: b, Idx: i, E: g.dynSource(T)})
		}
	}
	c := g.fresh()
	g.top()[c] = &varInfo{T: AT, NoAssign: true}
	g.pending = append(g.pending, &Stmt{K: SDefine, Name: c, E: &Expr{Op: EVar, T: AT, Name: b}})
	k := g.intn(0, AT.N-1, "csidx")
	g.pending = append(g.pending, &Stmt{K: SSetIndex, Name: c, Idx: k, E: &Expr{Op: EVar, T: T, Name: y}})
	// Drawn before the following names exist in the scope.
	other := g.dynSource(T)
	w := g.fresh()
	g.top()[w] = &varInfo{T: T, Dyn: true}
	g.pending = append(g.pending, &Stmt{K: SDefine, Name: w,
		E: &Expr{Op: EIndex, T: T, Idx: k, A: []*Expr{{Op: EVar, T: AT, Name: c}}}})
	three := "3"
	if T.N < 3 {
		three = "1"
	}
	r := g.fresh()
	g.top()[r] = &varInfo{T: T, Dyn: true}
	g.pending = append(g.pending, &Stmt{K: SDefine, Name: r, E: &Expr{Op: EBin, T: T, Name: "+", A: []*Expr{
		{Op: EVar, T: T, Name: w},
		{Op: EBin, T: T, Name: "^", A: []*Expr{
			{Op: EBin, T: T, Name: "*", A: []*Expr{{Op: EVar, T: T, Name: y}, {Op: ELit, T: T, Val: three}}},
			other}}}}})
	z := g.fresh()
	g.top()[z] = &varInfo{T: T, Dyn: true}
	g.pending = append(g.pending, &Stmt{K: SDefine, Name: z, E: &Expr{Op: EBin, T: T, Name: "^", A: []*Expr{
		{Op: EIndex, T: T, Idx: g.intn(0, AT.N-1, "csold"), A: []*Expr{{Op: EVar, T: AT, Name: b}}},
		{Op: EVar, T: T, Name: r}}}})
	if g.fn.Name == "main" && g.ifDepth%100 == 0 {
		g.sink = append(g.sink, named{z, g.top()[z]})
	}
	return first
}

// storeLiteralIdiom emits
//
//	vS := <struct or array parameter>     (a local copy with input-dependent members)
//	vS.Fi = <literal>                     (or vS[i] = <literal>)
//	vB := (<dynamic> + vS.Fi) ^ vS.Fj     (the stored member and a neighbour)
//
// a constant (which has its own 32 or 64 bit type inside the compiler) stored
// into a member that is narrower or wider than that, with the neighbouring
// member read afterwards.
func (g *gctx) storeLiteralIdiom() *Stmt {
	var cands []named
	for _, nv := range g.visible() {
		if !(nv.v.RO || nv.v.Param) {
			continue
		}
		switch nv.v.T.K {
		case KStruct:
			ok := len(g.prog.Struct(nv.v.T.S).Fields) > 0
			for _, f := range g.prog.Struct(nv.v.T.S).Fields {
				ok = ok && f.T.IsInt()
			}
			if ok {
				cands = append(cands, nv)
			}
		case KArray:
			if nv.v.T.E.IsInt() && nv.v.T.N >= 1 {
				cands = append(cands, nv)
			}
		}
	}
	if len(cands) == 0 {
		return nil
	}
	src := cands[g.intn(0, len(cands)-1, "slsrc")]
	T := src.v.T
	var ets []Type
	var names []string
	if T.K == KStruct {
		for _, f := range g.prog.Struct(T.S).Fields {
			ets = append(ets, f.T)
			names = append(names, f.Name)
		}
	} else {
		for i := 0; i < T.N; i++ {
			ets = append(ets, *T.E)
		}
	}
	i := g.intn(0, len(ets)-1, "slmember")
	j := i
	if len(ets) > 1 {
		j = (i + 1) % len(ets)
		if g.chance(30, "slprev") {
			j = (i + len(ets) - 1) % len(ets)
		}
	}
	vs := g.fresh()
	g.top()[vs] = &varInfo{T: T}
	first := &Stmt{K: SDefine, Name: vs, E: &Expr{Op: EVar, T: T, Name: src.name}}
	lit := g.plainLiteral(ets[i])
	member := func(k int) *Expr {
		av := &Expr{Op: EVar, T: T, Name: vs}
		if T.K == KArray {
			return &Expr{Op: EIndex, T: ets[k], Idx: k, A: []*Expr{av}}
		}
		return &Expr{Op: EField, T: ets[k], Name: names[k], A: []*Expr{av}}
	}
	if T.K == KArray {
		g.pending = append(g.pending, &Stmt{K: SSetIndex, Name: vs, Idx: i, E: lit})
	} else {
		g.pending = append(g.pending, &Stmt{K: SSetField, Name: vs, Field: names[i], E: lit})
	}
	vb := g.fresh()
	sum := &Expr{Op: EBin, T: ets[i], Name: "+", A: []*Expr{g.dynSource(ets[i]), member(i)}}
	e := &Expr{Op: EBin, T: ets[j], Name: "^", A: []*Expr{g.castTo(sum, ets[j]), member(j)}}
	g.top()[vb] = &varInfo{T: ets[j], Dyn: true}
	g.pending = append(g.pending, &Stmt{K: SDefine, Name: vb, E: e})
	if g.fn.Name == "main" && g.ifDepth%100 == 0 {
		g.sink = append(g.sink, named{vb, g.top()[vb]})
	}
	return first
}

// outerLoopIdiom emits
//
//	var kN int32 = c
//	for kN = S; kN < S+C; kN++ { <body> }      (C = 0 two times in five)
//	vM := arr[kN] + <dynamic value>
//
// a loop whose variable is declared outside and keeps its value after the
// loop - also when the loop body never runs, in which case only the init
// statement takes effect.
func (g *gctx) outerLoopIdiom() *Stmt {
	var arrs []named
	for _, nv := range g.visible() {
		if nv.v.T.K == KArray && nv.v.T.E.IsInt() && nv.v.T.N >= 2 {
			arrs = append(arrs, nv)
		}
	}
	if len(arrs) == 0 {
		return nil
	}
	arr := arrs[g.intn(0, len(arrs)-1, "olarr")]
	n := arr.v.T.N
	count := 0
	if !g.chance(40, "olzero") {
		count = g.intn(1, 3, "olcount")
	}
	if count > n-1 {
		count = n - 1
	}
	start := g.intn(0, n-1-count, "olstart")
	k := g.fresh()
	I32 := Int(32)
	first := &Stmt{K: SVar, Name: k, T: &I32, E: &Expr{Op: ELit, T: I32, Val: fmt.Sprint(g.intn(0, n-1, "olinit"))}}
	// The loop variable is not offered to the body as an operand (it has
	// its own declared type); the body just runs Count times.
	loop := &Stmt{K: SFor, Var: k, Count: count, Start: start, Outer: true}
	g.loops = append(g.loops, loopVar{"_", hiddenLoop})
	// A body that runs zero times leaves the constant tracking of every
	// variable as it was before the loop.
	type dynState struct {
		v   *varInfo
		dyn bool
	}
	var before []dynState
	for _, nv := range g.visible() {
		before = append(before, dynState{nv.v, nv.v.Dyn})
	}
	g.push()
	nb := g.intn(1, 2, "olbody")
	saved := g.pending
	g.pending = nil
	for i := 0; (i < nb && g.budget > 0) || len(g.pending) > 0; i++ {
		st, _ := g.stmtNoReturn()
		loop.Body = append(loop.Body, st)
	}
	g.pending = saved
	g.pop()
	if count == 0 {
		for _, b := range before {
			b.v.Dyn = b.dyn
		}
	}
	g.loops = g.loops[:len(g.loops)-1]
	g.pending = append(g.pending, loop)
	T := *arr.v.T.E
	v := g.fresh()
	rd := &Expr{Op: EIndex, T: T, Name: k, A: []*Expr{{Op: EVar, T: arr.v.T, Name: arr.name}}}
	e := &Expr{Op: EBin, T: T, Name: "+", A: []*Expr{g.dynSource(T), rd}}
	g.top()[v] = &varInfo{T: T, Dyn: true}
	g.pending = append(g.pending, &Stmt{K: SDefine, Name: v, E: e})
	if g.fn.Name == "main" {
		g.sink = append(g.sink, named{v, g.top()[v]})
	}
	return first
}

// structIdiom emits
//
//	s.f1 = <value>                      (the old version of s dies here)
//	vA := <computed value as wide as s>  (wants wires of exactly that width)
//	vB := s.f2 op ...                    (reads a field the store left alone)
//
// the shape in which a wire allocator must not hand the wires of the old
// struct version to vA although the new version still refers to them.
func (g *gctx) structIdiom() *Stmt {
	var cands []named
	for _, nv := range g.visible() {
		if nv.v.T.K == KStruct && !nv.v.RO && !nv.v.NoAssign {
			cands = append(cands, nv)
		}
	}
	if len(cands) == 0 {
		return nil
	}
	nv := cands[g.intn(0, len(cands)-1, "idiomstruct")]
	sd := g.prog.Struct(nv.v.T.S)
	w := g.prog.Bits(nv.v.T)
	if w < 2 || w > 130 || len(sd.Fields) == 0 {
		return nil
	}
	f1 := sd.Fields[g.intn(0, len(sd.Fields)-1, "idiomf1")]
	f2 := sd.Fields[g.intn(0, len(sd.Fields)-1, "idiomf2")]
	if f2.Name == f1.Name && len(sd.Fields) > 1 {
		for _, f := range sd.Fields {
			if f.Name != f1.Name {
				f2 = f
				break
			}
		}
	}
	sv := &Expr{Op: EVar, T: nv.v.T, Name: nv.name}
	// The operand of the wide computation exists before the store, so that
	// no alias instruction (cast) sits between the store and the
	// computation (an alias would take the freed wire vector harmlessly).
	W := Uint(w)
	pre := g.fresh()
	first := &Stmt{K: SDefine, Name: pre, E: &Expr{Op: EBin, T: W, Name: "+",
		A: []*Expr{g.dynSource(W), g.dynSource(W)}}}
	g.top()[pre] = &varInfo{T: W, Dyn: true}
	e1, _ := g.expr(f1.T, true)
	g.pending = append(g.pending, &Stmt{K: SSetField, Name: nv.name, Field: f1.Name, E: e1})
	a := g.fresh()
	op := []string{"*", "+", "-"}[g.intn(0, 2, "idiomop")]
	pv := &Expr{Op: EVar, T: W, Name: pre}
	ea := &Expr{Op: EBin, T: W, Name: op, A: []*Expr{pv, pv}}
	g.top()[a] = &varInfo{T: W, Dyn: true}
	g.pending = append(g.pending, &Stmt{K: SDefine, Name: a, E: ea})
	b := g.fresh()
	rd := &Expr{Op: EField, T: f2.T, Name: f2.Name, A: []*Expr{sv}}
	eb := &Expr{Op: EBin, T: f2.T, Name: "+", A: []*Expr{rd, g.castTo(&Expr{Op: EVar, T: W, Name: a}, f2.T)}}
	g.top()[b] = &varInfo{T: f2.T, Dyn: true}
	g.pending = append(g.pending, &Stmt{K: SDefine, Name: b, E: eb})
	if g.fn.Name == "main" && g.ifDepth%100 == 0 {
		g.sink = append(g.sink, named{b, g.top()[b]})
	}
	return first
}

// aliasIdiom emits the statement sequence
//
//	vA := <computed value>        (own wires)
//	vB := alias(vA)               (cast / constant shift / copy; 1-3 levels)
//	vC := <another computed value>
//
// after which vA is never used again while vB stays visible: the shape in
// which a wire allocator must not recycle vA's wires although vA is dead.
func (g *gctx) aliasIdiom() *Stmt {
	T := g.pickType("idiomtype")
	a := g.fresh()
	ea, _ := g.intExpr(T, g.intn(1, g.o.MaxDepth, "idiomdepth"), true)
	if ea.Op == EVar || ea.Op == ECast {
		ea = &Expr{Op: EBin, T: T, Name: "+", A: []*Expr{ea, g.dynSource(T)}}
	}
	first := &Stmt{K: SDefine, Name: a, E: ea}
	cur := &Expr{Op: EVar, T: T, Name: a}
	levels := g.intn(1, 3, "idiomlevels")
	for l := 0; l < levels; l++ {
		var e *Expr
		U := T
		switch g.intn(0, 2, "idiomalias") {
		case 0:
			e = cur
		case 1:
			op := "<<"
			if g.chance(50, "idiomshr") {
				op = ">>"
			}
			e = &Expr{Op: EBin, T: cur.T, Name: op, A: []*Expr{cur,
				{Op: ELit, T: Uint(32), Val: fmt.Sprint(g.intn(0, cur.T.N-1, "idiomshift"))}}}
			U = cur.T
		default:
			U = g.pickType("idiomcast")
			if cur.T.Signed() && g.chance(60, "idiomwiden") {
				// A signed widening cast when the pool has one.
				var wider []Type
				for _, P := range g.pool {
					if P.Signed() && P.N > cur.T.N {
						wider = append(wider, P)
					}
				}
				if len(wider) > 0 {
					U = wider[g.intn(0, len(wider)-1, "idiomwider")]
				}
			}
			e = g.castTo(cur, U)
		}
		if l == 0 && e == cur {
			U = cur.T
		}
		name := g.fresh()
		g.top()[name] = &varInfo{T: e.T, Dyn: true}
		if g.chance(50, "idiomvar") {
			Tv := e.T
			g.pending = append(g.pending, &Stmt{K: SVar, Name: name, T: &Tv, E: e})
		} else {
			g.pending = append(g.pending, &Stmt{K: SDefine, Name: name, E: e})
		}
		cur = &Expr{Op: EVar, T: e.T, Name: name}
		_ = U
	}
	// vA is not registered in the scope: it is dead after the aliases.
	c := g.fresh()
	Tc := g.pickType("idiomtype2")
	if g.chance(60, "idiomsamewidth") {
		// A computed value exactly as wide as the dead source: it gets
		// the source's wire ids when they were recycled.
		Tc = T
	}
	ec, _ := g.intExpr(Tc, g.intn(1, g.o.MaxDepth, "idiomdepth2"), true)
	g.top()[c] = &varInfo{T: Tc, Dyn: true}
	g.pending = append(g.pending, &Stmt{K: SDefine, Name: c, E: ec})
	if g.fn.Name == "main" {
		// Keep the last alias (and the value computed after it) live up
		// to the final return.
		g.sink = append(g.sink, named{cur.Name, g.top()[cur.Name]}, named{c, g.top()[c]})
	}
	return first
}

// callable tells whether every aggregate parameter of f has a matching
// variable in scope (aggregates are passed as whole variables).
func (g *gctx) callable(f *Func) bool {
	for _, pa := range f.Params {
		if isScalar(pa.T) {
			continue
		}
		ok := false
		for _, nv := range g.visible() {
			if nv.v.T.Equal(pa.T) {
				ok = true
			}
		}
		if !ok {
			return false
		}
	}
	return true
}

func (g *gctx) arrayLen() int {
	if g.o.DynIndex && g.chance(50, "pow2len") {
		return []int{2, 4, 8}[g.intn(0, 2, "pow2")]
	}
	return g.intn(1, 6, "arrlen")
}

func (g *gctx) forStmt() *Stmt {
	if g.o.Arrays && g.chance(30, "forrange") {
		// for i, v := range arr
		var arrs []named
		for _, nv := range g.visible() {
			if nv.v.T.K == KArray && nv.v.T.E.IsInt() {
				arrs = append(arrs, nv)
			}
		}
		if len(arrs) > 0 {
			nv := arrs[g.intn(0, len(arrs)-1, "rangearr")]
			s := &Stmt{K: SForRange, Var: fmt.Sprintf("i%d", len(g.loops)), Name: g.fresh(),
				E: &Expr{Op: EVar, T: nv.v.T, Name: nv.name}}
			g.loops = append(g.loops, loopVar{s.Var, nv.v.T.N})
			// The ranged array is not assigned inside its own range
			// loop (whether the loop sees such updates is not fixed
			// by the docs or the annotated programs).
			wasRO := nv.v.RO
			wasNA := nv.v.NoAssign
			nv.v.NoAssign = true
			defer func() { nv.v.NoAssign = wasNA }()
			g.push()
			g.top()[s.Name] = &varInfo{T: *nv.v.T.E, Dyn: wasRO, RO: true}
			n := g.intn(1, 3, "loopbody")
			for i := 0; (i < n && g.budget > 0) || len(g.pending) > 0; i++ {
				st, _ := g.stmtNoReturn()
				s.Body = append(s.Body, st)
			}
			g.pop()
			g.loops = g.loops[:len(g.loops)-1]
			return s
		}
	}
	s := &Stmt{K: SFor, Var: fmt.Sprintf("i%d", len(g.loops)), Count: g.intn(1, 5, "loopcount")}
	if g.chance(20, "forstep") {
		s.ForStep = "add"
	}
	g.loops = append(g.loops, loopVar{s.Var, s.Count})
	g.push()
	n := g.intn(1, 3, "loopbody")
	for i := 0; (i < n && g.budget > 0) || len(g.pending) > 0; i++ {
		st, _ := g.stmtNoReturn()
		s.Body = append(s.Body, st)
	}
	g.pop()
	g.loops = g.loops[:len(g.loops)-1]
	return s
}

// stmtNoReturn generates a statement that contains no return (loop bodies).
func (g *gctx) stmtNoReturn() (*Stmt, bool) {
	saved := g.ifDepth
	g.ifDepth += 100 // marks "no early return" for ifStmt
	st, term := g.stmt()
	g.ifDepth = saved
	return st, term
}

func (g *gctx) block(n int, allowReturn bool) ([]*Stmt, bool) {
	g.push()
	defer g.pop()
	var list []*Stmt
	for i := 0; (i < n && g.budget > 0) || len(g.pending) > 0; i++ {
		st, term := g.stmt()
		list = append(list, st)
		if term {
			return list, true
		}
	}
	if allowReturn && g.chance(30, "earlyreturn") {
		list = append(list, g.returnStmt())
		return list, true
	}
	return list, false
}

func (g *gctx) returnStmt() *Stmt {
	s := &Stmt{K: SReturn}
	for _, r := range g.fn.Results {
		s.Es = append(s.Es, g.resultExpr(r))
	}
	return s
}

func (g *gctx) resultExpr(r Type) *Expr {
	switch {
	case isScalar(r):
		if g.fn.Name != "main" {
			// Helper results must be input-dependent: the caller
			// treats them as dynamic.
			e, _ := g.expr(r, true)
			return e
		}
		e, _ := g.rhs(r)
		return e
	case r.K == KArray || r.K == KStruct:
		for _, nv := range g.visible() {
			if nv.v.T.Equal(r) {
				return &Expr{Op: EVar, T: r, Name: nv.name}
			}
		}
	}
	panic("generator: no value for result type " + r.String())
}

// ifStmt generates if / else if / else with per-path constant tracking.
func (g *gctx) ifStmt() (*Stmt, bool) {
	noReturn := g.ifDepth >= 100
	g.ifDepth++
	defer func() { g.ifDepth-- }()

	cond, _ := g.boolExpr(g.intn(0, g.o.MaxDepth, "conddepth"), true)
	s := &Stmt{K: SIf, E: cond}
	if g.chance(10, "litphi") {
		// Literal phi: both arms assign literals to the same one or two
		// variables (crosswise), so the merge selects between constants.
		c := g.assignable(func(t Type) bool { return t.IsInt() && t.N >= 2 })
		if len(c) > 0 {
			n := 1
			if len(c) > 1 && g.chance(60, "litphi2") {
				n = 2
			}
			first := g.intn(0, len(c)-n, "litphivar")
			for i := 0; i < n; i++ {
				nv := c[first+i]
				la, lb := g.literal(nv.v.T), g.literal(nv.v.T)
				s.Then = append(s.Then, &Stmt{K: SAssign, Name: nv.name, E: la})
				s.Else = append(s.Else, &Stmt{K: SAssign, Name: nv.name, E: lb})
				// The merge of two different constants under an
				// input-dependent condition is a run-time value
				// (a phi instruction with constant operands).
				va, _ := new(big.Int).SetString(la.Val, 0)
				vb, _ := new(big.Int).SetString(lb.Val, 0)
				nv.v.Dyn = va != nil && vb != nil && va.Cmp(vb) != 0
				if nv.v.Dyn && g.fn.Name == "main" {
					g.sink = append(g.sink, nv)
				}
				if nv.v.WO && g.ifDepth%100 == 1 && len(g.loops) == 0 {
					nv.v.WO = false
				}
			}
			return s, false
		}
	}
	allowReturn := !noReturn && len(g.loops) == 0 && g.returnable()

	pre := cloneScopes(g.scopes)
	var surviving [][]scope

	then, term := g.block(g.intn(1, 3, "thenlen"), allowReturn)
	s.Then = then
	if !term {
		surviving = append(surviving, g.scopes)
	}
	g.scopes = cloneScopes(pre)
	elseTerm := false
	switch g.intn(0, 4, "elsekind") {
	case 0: // no else
	case 1: // else if
		if g.ifDepth%100 < 3 && g.budget > 0 {
			g.budget--
			inner, t := g.ifStmt()
			inner.Op = "elseif"
			s.Else = []*Stmt{inner}
			elseTerm = t
		}
	case 2:
		// Mirrored arms: the else arm repeats the assignments of the
		// then arm under fresh inner conditions (both arms bind the
		// same variables to the same values through different phis).
		if !term {
			if els := g.mirror(then, declared(then)); len(els) > 0 {
				s.Else = els
				// mirror tracked which variables are constant
				// on this path (g.scopes).
				break
			}
		}
		fallthrough
	default:
		els, t := g.block(g.intn(1, 3, "elselen"), allowReturn)
		s.Else = els
		elseTerm = t
	}
	if !elseTerm {
		surviving = append(surviving, g.scopes)
	}
	if len(surviving) == 0 {
		g.scopes = pre
		return s, true
	}
	// Merge: a variable is certainly dynamic only if it is on all
	// surviving paths.
	merged := cloneScopes(surviving[0])
	for _, other := range surviving[1:] {
		for i := range merged {
			for name, v := range merged[i] {
				if ov, ok := other[i][name]; ok {
					v.Dyn = v.Dyn && ov.Dyn
				}
			}
		}
	}
	g.scopes = merged
	return s, false
}

// declared collects the names declared by a statement list (recursively).
func declared(list []*Stmt) map[string]bool {
	res := map[string]bool{}
	var walk func(l []*Stmt)
	walk = func(l []*Stmt) {
		for _, s := range l {
			switch s.K {
			case SVar, SDefine:
				res[s.Name] = true
			case SCall:
				for _, n := range s.Names {
					res[n] = true
				}
			case SFor:
				res[s.Var] = true
			case SForRange:
				res[s.Var] = true
				res[s.Name] = true
			}
			walk(s.Then)
			walk(s.Else)
			walk(s.Body)
		}
	}
	walk(list)
	return res
}

func exprRefs(e *Expr, names map[string]bool) bool {
	if e == nil {
		return false
	}
	if (e.Op == EVar || e.Op == ELoopVar) && names[e.Name] {
		return true
	}
	if e.Op == EIndex && e.Name != "" && names[e.Name] {
		return true
	}
	for _, a := range e.A {
		if exprRefs(a, names) {
			return true
		}
	}
	return false
}

// mirror copies the assignments of a statement list, dropping declarations and
// everything that refers to names declared in the original, and replaces the
// conditions of nested ifs by fresh ones.  The copies are re-validated against
// the constant tracking of the path they are copied to (g.scopes): a variable
// that was dynamic where the original stands (for example assigned in a loop
// that is not copied) may be a constant here, and an operator applied to two
// constants is outside the generated language.
func (g *gctx) mirror(list []*Stmt, local map[string]bool) []*Stmt {
	var res []*Stmt
	for _, s := range list {
		switch s.K {
		case SAssign, SOpAssign, SSetIndex, SSetField:
			if local[s.Name] || exprRefs(s.E, local) || (s.LoopIdx != "" && local[s.LoopIdx]) {
				continue
			}
			dyn, ok := g.exprDyn(s.E)
			tv := g.lookup(s.Name)
			if !ok || tv == nil {
				continue
			}
			switch s.K {
			case SAssign:
				tv.Dyn = dyn
			case SOpAssign:
				if !tv.Dyn && !dyn {
					continue
				}
				tv.Dyn = true
			}
			cp := *s
			res = append(res, &cp)
		case SIf:
			// The fresh condition is evaluated before the arms: draw
			// it under the tracking of this point.
			cond, _ := g.boolExpr(g.intn(0, g.o.MaxDepth, "mirrorcond"), true)
			pre := cloneScopes(g.scopes)
			inner := g.mirror(s.Then, local)
			if len(inner) == 0 {
				g.scopes = pre
				continue
			}
			thenScopes := g.scopes
			g.scopes = cloneScopes(pre)
			els := g.mirror(s.Else, local)
			for i := range g.scopes {
				for name, v := range g.scopes[i] {
					if ov, ok := thenScopes[i][name]; ok {
						v.Dyn = v.Dyn && ov.Dyn
					}
				}
			}
			res = append(res, &Stmt{K: SIf, E: cond, Then: inner, Else: els})
		}
	}
	return res
}

// exprDyn re-derives, under the constant tracking of the current path, whether
// an expression is certainly dynamic, and whether it obeys the generator's rule
// that an arithmetic or bitwise operator has at least one dynamic operand.
func (g *gctx) exprDyn(e *Expr) (dyn, ok bool) {
	if e == nil {
		return false, true
	}
	switch e.Op {
	case ELit, ELoopVar, EComposite:
		return false, true
	case EVar:
		v := g.lookup(e.Name)
		if v == nil {
			return false, false
		}
		return v.Dyn, true
	case ECast, EUn:
		return g.exprDyn(e.A[0])
	case EIndex:
		v := g.lookup(e.A[0].Name)
		if e.A[0].Op != EVar || v == nil {
			return false, false
		}
		return v.RO && e.Name == "", true
	case EDynIndex:
		_, ok := g.exprDyn(e.A[1])
		return false, ok
	case EField:
		v := g.lookup(e.A[0].Name)
		if e.A[0].Op != EVar || v == nil {
			return false, false
		}
		return v.RO || v.Param, true
	case ECall:
		for _, a := range e.A {
			if _, ok := g.exprDyn(a); !ok {
				return false, false
			}
		}
		return true, true
	case EBin:
		ld, lok := g.exprDyn(e.A[0])
		rd, rok := g.exprDyn(e.A[1])
		if !lok || !rok {
			return false, false
		}
		switch e.Name {
		case "<<", ">>":
			return ld, true
		case "==", "!=", "<", "<=", ">", ">=", "&&", "||":
			return ld || rd, true
		}
		return true, ld || rd
	}
	return false, false
}

// returnable tells whether a return statement can be generated here (array
// and struct results need a variable of that type in scope).
func (g *gctx) returnable() bool {
	if len(g.fn.ResultNames) > 0 {
		return false
	}
	for _, r := range g.fn.Results {
		if isScalar(r) {
			continue
		}
		ok := false
		for _, nv := range g.visible() {
			if nv.v.T.Equal(r) {
				ok = true
			}
		}
		if !ok {
			return false
		}
	}
	return true
}

func (g *gctx) function(f *Func, stmts int) {
	g.fn = f
	g.sink = nil
	g.scopes = nil
	g.loops = nil
	g.ifDepth = 0
	g.push()
	for _, pa := range f.Params {
		if pa.T.K == KStruct {
			g.top()[pa.Name] = &varInfo{T: pa.T, Param: true}
			continue
		}
		g.top()[pa.Name] = &varInfo{T: pa.T, Dyn: isScalar(pa.T), RO: true}
	}
	g.budget = stmts
	g.push()
	// Non-scalar results need a local of that type.
	for _, r := range f.Results {
		if !isScalar(r) {
			name := g.fresh()
			T := r
			g.top()[name] = &varInfo{T: T}
			f.Body = append(f.Body, &Stmt{K: SVar, Name: name, T: &T})
		}
	}
	for i, n := range f.ResultNames {
		// Named results: zero-initialised variables of the function.
		g.top()[n] = &varInfo{T: f.Results[i], WO: true}
	}
	terminated := false
	for g.budget > 0 || len(g.pending) > 0 {
		st, term := g.stmt()
		f.Body = append(f.Body, st)
		if term {
			terminated = true
			break
		}
	}
	if !terminated && f.Name == "main" && len(g.sink) > 0 {
		// Fold the sink variables into the first integer result so that
		// the values the idioms computed reach an output.
		ret := g.returnStmt()
		for i, r := range f.Results {
			if !r.IsInt() {
				continue
			}
			for _, sk := range g.sink {
				cur := g.lookup(sk.name)
				if cur == nil || !cur.Dyn {
					continue // reassigned to a constant meanwhile
				}
				use := g.castTo(&Expr{Op: EVar, T: cur.T, Name: sk.name}, r)
				if ret.Es[i].Op == ELit {
					ret.Es[i] = use
				} else {
					ret.Es[i] = &Expr{Op: EBin, T: r, Name: "^", A: []*Expr{ret.Es[i], use}}
				}
			}
			break
		}
		f.Body = append(f.Body, ret)
		terminated = true
	}
	if !terminated {
		if len(f.ResultNames) > 0 {
			// Give every named result an input-dependent value (the
			// caller treats helper results as dynamic), then a bare
			// return.
			for i, n := range f.ResultNames {
				if g.chance(70, "assignnamed") || !g.lookup(n).Dyn || g.lookup(n).WO {
					e, _ := g.expr(f.Results[i], true)
					f.Body = append(f.Body, &Stmt{K: SAssign, Name: n, E: e})
				}
			}
			f.Body = append(f.Body, &Stmt{K: SReturn})
		} else {
			f.Body = append(f.Body, g.returnStmt())
		}
	}
	g.pop()
	g.pop()
}

// Draw generates a program.
func Draw(t *rapid.T, o Opts) *Prog {
	if o.MaxStmts == 0 {
		o.MaxStmts = 10
	}
	if o.MaxDepth == 0 {
		o.MaxDepth = 3
	}
	if o.MaxWidth == 0 {
		o.MaxWidth = 130
	}
	g := &gctx{t: t, o: o, prog: &Prog{}}

	// Type pool.
	np := g.intn(1, 4, "npool")
	for i := 0; i < np; i++ {
		var w int
		switch {
		case o.MulHeavy:
			w = g.intn(8, min(45, max(8, o.MaxWidth)), "width")
		case g.chance(60, "tablewidth"):
			w = widthTable[g.intn(0, len(widthTable)-1, "width")]
		default:
			w = g.intn(1, 130, "width")
		}
		if w > o.MaxWidth {
			w = o.MaxWidth
		}
		if g.chance(50, "signed") {
			g.pool = append(g.pool, Int(w))
		} else {
			g.pool = append(g.pool, Uint(w))
		}
	}
	if o.AliasHeavy && o.MaxWidth >= 4 && g.chance(40, "signedpair") {
		// Two signed types of different widths: widening signed casts
		// (smov) between pool types.
		w := g.intn(2, min(64, o.MaxWidth-1), "pairwidth")
		d := g.intn(1, min(40, o.MaxWidth-w), "pairdelta")
		g.pool = append(g.pool, Int(w), Int(w+d))
	}
	g.pool = append(g.pool, o.PoolTypes...)
	if o.Structs && g.chance(55, "hasstruct") {
		sd := StructDef{Name: "S0"}
		nf := g.intn(1, 3, "nfields")
		for i := 0; i < nf; i++ {
			sd.Fields = append(sd.Fields, Field{Name: fmt.Sprintf("F%d", i), T: g.pickType("fieldtype")})
		}
		g.prog.Structs = append(g.prog.Structs, sd)
	}

	if o.PkgConsts && g.chance(50, "haspkgconsts") {
		// Untyped package-level constants.  a0/a1 are also the names of
		// main's first parameters: inside main the parameter shadows the
		// constant, the helpers see the constant.
		names := []string{"K0", "a0", "a1", "K1"}
		nc := g.intn(1, len(names), "npkgconsts")
		for _, i := range rapid.Permutation([]int{0, 1, 2, 3}).Draw(g.t, "pkgconstnames")[:nc] {
			v := g.intn(0, 200, "pkgconstval")
			g.prog.Consts = append(g.prog.Consts, ConstDef{Name: names[i], Val: fmt.Sprint(v)})
		}
	}

	// Helpers first (so that calls only go to already generated functions).
	nh := 0
	if o.Helpers > 0 {
		nh = g.intn(0, o.Helpers, "nhelpers")
	}
	for h := 0; h < nh; h++ {
		f := &Func{Name: fmt.Sprintf("f%d", h)}
		npar := g.intn(1, 3, "hparams")
		for i := 0; i < npar; i++ {
			T := g.pickType("hparamtype")
			if i > 0 && g.chance(15, "hboolparam") {
				T = Bool()
			}
			if i > 0 && o.Arrays && g.chance(20, "haggparam") {
				if len(g.prog.Structs) > 0 && g.chance(50, "hstructparam") {
					T = Type{K: KStruct, S: g.prog.Structs[0].Name}
				} else {
					T = Array(g.intn(1, 4, "hparamlen"), g.pickType("hparamelem"))
				}
			}
			f.Params = append(f.Params, Param{Name: fmt.Sprintf("p%d", i), T: T})
		}
		nres := g.intn(1, 2, "hresults")
		for i := 0; i < nres; i++ {
			R := g.scalarType()
			if o.Arrays && g.chance(15, "haggresult") {
				if len(g.prog.Structs) > 0 && g.chance(50, "hstructresult") {
					R = Type{K: KStruct, S: g.prog.Structs[0].Name}
				} else {
					R = Array(g.intn(1, 4, "hreslen"), g.pickType("hreselem"))
				}
			}
			f.Results = append(f.Results, R)
		}
		allScalar := true
		for _, r := range f.Results {
			if !isScalar(r) {
				allScalar = false
			}
		}
		if allScalar && g.chance(25, "namedresults") {
			for i := range f.Results {
				f.ResultNames = append(f.ResultNames, fmt.Sprintf("r%d_%d", h, i))
			}
		}
		g.function(f, g.intn(1, 4, "hstmts"))
		g.prog.Funcs = append(g.prog.Funcs, f)
	}

	main := &Func{Name: "main"}
	npar := o.NumParams
	if npar == 0 {
		npar = g.intn(1, 3, "nparams")
	}
	for i := 0; i < npar; i++ {
		T := g.pickType("paramtype")
		if i > 0 && o.ArrayParams && g.chance(30, "arrayparam") {
			T = Array(g.intn(1, 5, "paramarrlen"), g.pickType("paramelem"))
		} else if i > 0 && !o.ScalarParams && g.chance(10, "boolparam") {
			T = Bool()
		}
		if i == 0 && o.Param0 != nil {
			T = *o.Param0
		}
		if o.StructParams && len(g.prog.Structs) > 0 && g.chance(40, "structparam") {
			T = Type{K: KStruct, S: g.prog.Structs[0].Name}
		}
		main.Params = append(main.Params, Param{Name: fmt.Sprintf("a%d", i), T: T})
	}
	nres := g.intn(1, 3, "nresults")
	for i := 0; i < nres; i++ {
		if o.Arrays && g.chance(12, "arrayresult") {
			main.Results = append(main.Results, Array(g.arrayLen(), g.pickType("reselem")))
		} else {
			main.Results = append(main.Results, g.scalarType())
		}
	}
	g.prog.Funcs = append(g.prog.Funcs, main)
	g.function(main, g.intn(1, o.MaxStmts, "nstmts"))
	return g.prog
}
