package mpcl

import (
	"fmt"
	"math/big"
	"strings"
)

// Semantics implemented here (sources: /repo/compiler/README.md "Types",
// /repo/docs/apidoc/language, and the annotated programs in
// /repo/testsuite/lang):
//
//   * intN/uintN arithmetic wraps at the declared width (add.mpcl, sub.mpcl,
//     mult.mpcl, addi32.mpcl);
//   * unsigned / and % are floor division and remainder (divu.mpcl, modu.mpcl);
//   * signed / truncates towards zero (divi.mpcl: -43/4 = -10);
//   * signed % is |a| mod |b| (modi.mpcl: -42 % 4 = 2, 42 % -4 = 2);
//   * << shifts in zeros, >> is logical on unsigned and arithmetic on signed
//     values; a shift count >= width gives 0 (lshift64.mpcl, rshift64.mpcl) or,
//     for a negative signed value shifted right, all ones;
//   * comparisons are signed for intN and unsigned for uintN (test_*.mpcl);
//   * narrowing casts truncate, widening casts zero-extend an unsigned source
//     and sign-extend a signed source to a signed target;
//   * if/else executes one branch, return leaves the function, for loops are
//     executed iteration by iteration (the compiler unrolls them).

// ErrDivZero is the text of the error Run returns when the program divides by
// zero on the given input (no defined meaning; callers skip such inputs).
const ErrDivZero = "division by zero"

// IsDivZero tells whether err is Run's division-by-zero error.
func IsDivZero(err error) bool {
	return err != nil && strings.Contains(err.Error(), ErrDivZero)
}

type env struct {
	vars   map[string]*Value
	parent *env
}

func (e *env) lookup(name string) *Value {
	for s := e; s != nil; s = s.parent {
		if v, ok := s.vars[name]; ok {
			return v
		}
	}
	panic("interp: undefined variable " + name)
}

func (e *env) define(name string, v Value) {
	cp := v
	e.vars[name] = &cp
}

func newEnv(parent *env) *env {
	return &env{vars: map[string]*Value{}, parent: parent}
}

type interp struct {
	p     *Prog
	steps int
}

// Run executes main on the given argument values and returns its results.
func (p *Prog) Run(args []Value) (res []Value, err error) {
	defer func() {
		if r := recover(); r != nil {
			err = fmt.Errorf("interp: %v", r)
		}
	}()
	in := &interp{p: p}
	return in.call(p.Main(), args), nil
}

func (in *interp) fn(name string) *Func {
	for _, f := range in.p.Funcs {
		if f.Name == name {
			return f
		}
	}
	panic("interp: unknown function " + name)
}

func (in *interp) call(f *Func, args []Value) []Value {
	e := newEnv(nil)
	for i, pa := range f.Params {
		e.define(pa.Name, args[i].Copy())
	}
	for i, n := range f.ResultNames {
		e.define(n, in.p.Zero(f.Results[i]))
	}
	ret, done := in.block(f.Body, e, f)
	if !done {
		if len(f.Results) == 0 {
			return nil
		}
		panic("interp: function " + f.Name + " ended without return")
	}
	return ret
}

// block executes statements in a new scope; done reports that a return was
// executed.
func (in *interp) block(list []*Stmt, parent *env, f *Func) ([]Value, bool) {
	e := newEnv(parent)
	for _, s := range list {
		in.steps++
		if in.steps > 2000000 {
			panic("step limit")
		}
		switch s.K {
		case SVar:
			if s.E != nil {
				e.define(s.Name, in.eval(s.E, e))
			} else {
				e.define(s.Name, in.p.Zero(*s.T))
			}
		case SDefine:
			e.define(s.Name, in.eval(s.E, e).Copy())
		case SAssign:
			*e.lookup(s.Name) = in.eval(s.E, e).Copy()
		case SOpAssign:
			v := e.lookup(s.Name)
			cur := &Expr{Op: EVar, T: s.E.T, Name: s.Name}
			r := in.eval(&Expr{Op: EBin, T: s.E.T, Name: s.Op, A: []*Expr{cur, s.E}}, e)
			*v = r
		case SSetIndex:
			arr := e.lookup(s.Name)
			idx := s.Idx
			if s.LoopIdx != "" {
				idx = int(e.lookup(s.LoopIdx).Bits.Int64())
			}
			if s.Idx2 > 0 {
				arr.Elems[idx].Elems[s.Idx2-1] = in.eval(s.E, e).Copy()
			} else {
				arr.Elems[idx] = in.eval(s.E, e).Copy()
			}
		case SSetField:
			st := e.lookup(s.Name)
			arrT := in.structOf(s.Name, e, f)
			for i, fd := range arrT.Fields {
				if fd.Name == s.Field {
					st.Elems[i] = in.eval(s.E, e).Copy()
				}
			}
		case SIf:
			c := in.eval(s.E, e)
			var ret []Value
			var done bool
			if c.Bits.Sign() != 0 {
				ret, done = in.block(s.Then, e, f)
			} else {
				ret, done = in.block(s.Else, e, f)
			}
			if done {
				return ret, true
			}
		case SFor:
			if s.Outer {
				v := e.lookup(s.Var)
				for i := 0; i < s.Count; i++ {
					v.Bits = big.NewInt(int64(s.Start + i))
					ret, done := in.block(s.Body, e, f)
					if done {
						return ret, true
					}
				}
				v.Bits = big.NewInt(int64(s.Start + s.Count))
				continue
			}
			loop := newEnv(e)
			for i := 0; i < s.Count; i++ {
				loop.define(s.Var, Value{Bits: big.NewInt(int64(i))})
				ret, done := in.block(s.Body, loop, f)
				if done {
					return ret, true
				}
			}
		case SForRange:
			arr := in.eval(s.E, e).Copy()
			loop := newEnv(e)
			for i, el := range arr.Elems {
				loop.define(s.Var, Value{Bits: big.NewInt(int64(i))})
				loop.define(s.Name, el.Copy())
				ret, done := in.block(s.Body, loop, f)
				if done {
					return ret, true
				}
			}
		case SReturn:
			if len(s.Es) == 0 {
				var ret []Value
				for _, n := range f.ResultNames {
					ret = append(ret, e.lookup(n).Copy())
				}
				return ret, true
			}
			var ret []Value
			for _, x := range s.Es {
				ret = append(ret, in.eval(x, e).Copy())
			}
			return ret, true
		case SCall:
			var args []Value
			for _, x := range s.Es {
				args = append(args, in.eval(x, e))
			}
			res := in.call(in.fn(s.Fn), args)
			for i, n := range s.Names {
				e.define(n, res[i])
			}
		default:
			panic("interp: unknown statement " + s.K)
		}
	}
	return nil, false
}

// structOf finds the struct definition of a variable by scanning the
// declarations of the function (variables have unique struct types by name).
func (in *interp) structOf(name string, e *env, f *Func) *StructDef {
	var find func(list []*Stmt) *StructDef
	find = func(list []*Stmt) *StructDef {
		for _, s := range list {
			if s.K == SVar && s.Name == name && s.T != nil && s.T.K == KStruct {
				return in.p.Struct(s.T.S)
			}
			if s.K == SDefine && s.Name == name && s.E != nil && s.E.T.K == KStruct {
				return in.p.Struct(s.E.T.S)
			}
			if s.K == SCall {
				for i, n := range s.Names {
					if n == name {
						if fn := in.fn(s.Fn); i < len(fn.Results) && fn.Results[i].K == KStruct {
							return in.p.Struct(fn.Results[i].S)
						}
					}
				}
			}
			for _, sub := range [][]*Stmt{s.Then, s.Else, s.Body} {
				if sd := find(sub); sd != nil {
					return sd
				}
			}
		}
		return nil
	}
	for _, pa := range f.Params {
		if pa.Name == name && pa.T.K == KStruct {
			return in.p.Struct(pa.T.S)
		}
	}
	if sd := find(f.Body); sd != nil {
		return sd
	}
	panic("interp: no struct type for " + name)
}

func boolVal(b bool) Value {
	if b {
		return Value{Bits: big.NewInt(1)}
	}
	return Value{Bits: new(big.Int)}
}

func (in *interp) eval(x *Expr, e *env) Value {
	switch x.Op {
	case EVar:
		return *e.lookup(x.Name)
	case ELoopVar:
		v := e.lookup(x.Name)
		return Value{Bits: Wrap(v.Bits, x.T.N)}
	case ELit:
		v, ok := new(big.Int).SetString(x.Val, 0)
		if !ok {
			panic("bad literal " + x.Val)
		}
		if x.T.K == KBool {
			return Value{Bits: v}
		}
		return Value{Bits: Wrap(v, x.T.N)}
	case ECast:
		src := in.eval(x.A[0], e)
		st := x.A[0].T
		var v *big.Int
		if st.Signed() && x.T.Signed() {
			v = ToSigned(src.Bits, st.N)
		} else {
			// Unsigned source (zero-extend) or narrowing / same width.
			v = src.Bits
			if st.Signed() && x.T.N > st.N {
				panic("interp: signed->unsigned widening cast is outside the modelled language")
			}
		}
		return Value{Bits: Wrap(v, x.T.N)}
	case EIndex:
		arr := in.eval(x.A[0], e)
		idx := x.Idx
		if x.Name != "" {
			idx = int(e.lookup(x.Name).Bits.Int64())
		}
		return arr.Elems[idx]
	case EDynIndex:
		arr := in.eval(x.A[0], e)
		idx := in.eval(x.A[1], e)
		return arr.Elems[int(idx.Bits.Int64())]
	case EField:
		st := in.eval(x.A[0], e)
		sd := in.p.Struct(x.A[0].T.S)
		for i, fd := range sd.Fields {
			if fd.Name == x.Name {
				return st.Elems[i]
			}
		}
		panic("interp: no field " + x.Name)
	case ECall:
		var args []Value
		for _, a := range x.A {
			args = append(args, in.eval(a, e))
		}
		return in.call(in.fn(x.Name), args)[0]
	case EComposite:
		var v Value
		for _, a := range x.A {
			v.Elems = append(v.Elems, in.eval(a, e).Copy())
		}
		return v
	case EUn:
		a := in.eval(x.A[0], e)
		switch x.Name {
		case "-":
			return Value{Bits: Wrap(new(big.Int).Neg(a.Bits), x.T.N)}
		case "!":
			return boolVal(a.Bits.Sign() == 0)
		}
		panic("interp: unary " + x.Name)
	case EBin:
		return in.binary(x, e)
	}
	panic("interp: unknown expression " + x.Op)
}

func (in *interp) binary(x *Expr, e *env) Value {
	op := x.Name
	// Short-circuit operators have no side effects here; evaluate both.
	a := in.eval(x.A[0], e)
	ot := x.A[0].T // operand type
	if op == "<<" || op == ">>" {
		k64 := in.eval(x.A[1], e).Bits
		n := ot.N
		if !k64.IsInt64() || k64.Int64() >= int64(n) {
			if op == ">>" && ot.Signed() && a.Bits.Bit(n-1) == 1 {
				return Value{Bits: mask(n)}
			}
			return Value{Bits: new(big.Int)}
		}
		k := uint(k64.Int64())
		if op == "<<" {
			return Value{Bits: Wrap(new(big.Int).Lsh(a.Bits, k), n)}
		}
		if ot.Signed() {
			return Value{Bits: Wrap(new(big.Int).Rsh(ToSigned(a.Bits, n), k), n)}
		}
		return Value{Bits: new(big.Int).Rsh(a.Bits, k)}
	}
	b := in.eval(x.A[1], e)
	switch op {
	case "&&":
		return boolVal(a.Bits.Sign() != 0 && b.Bits.Sign() != 0)
	case "||":
		return boolVal(a.Bits.Sign() != 0 || b.Bits.Sign() != 0)
	}
	n := ot.N
	av, bv := a.Bits, b.Bits
	if ot.Signed() {
		av, bv = ToSigned(av, n), ToSigned(bv, n)
	}
	switch op {
	case "==":
		return boolVal(av.Cmp(bv) == 0)
	case "!=":
		return boolVal(av.Cmp(bv) != 0)
	case "<":
		return boolVal(av.Cmp(bv) < 0)
	case "<=":
		return boolVal(av.Cmp(bv) <= 0)
	case ">":
		return boolVal(av.Cmp(bv) > 0)
	case ">=":
		return boolVal(av.Cmp(bv) >= 0)
	}
	r := new(big.Int)
	switch op {
	case "+":
		r.Add(av, bv)
	case "-":
		r.Sub(av, bv)
	case "*":
		r.Mul(av, bv)
	case "&":
		r.And(a.Bits, b.Bits)
	case "|":
		r.Or(a.Bits, b.Bits)
	case "^":
		r.Xor(a.Bits, b.Bits)
	case "&^":
		r.AndNot(a.Bits, b.Bits)
	case "/":
		if bv.Sign() == 0 {
			panic(ErrDivZero)
		}
		r.Quo(av, bv) // truncated division
	case "%":
		if bv.Sign() == 0 {
			panic(ErrDivZero)
		}
		// |a| mod |b| (testsuite/lang/modi.mpcl); equals the ordinary
		// remainder for unsigned operands.
		r.Mod(new(big.Int).Abs(av), new(big.Int).Abs(bv))
	default:
		panic("interp: binary " + op)
	}
	return Value{Bits: Wrap(r, n)}
}
