// Package mpcl holds a small typed IR for MPCL programs, a printer that turns
// the IR into MPCL source, a reference interpreter that executes the IR with
// math/big under the semantics fixed by the documentation and the annotated
// programs in /repo/testsuite, and a rapid generator for the IR.
//
// The interpreter is the oracle of C03/C05/C09/C10; it shares no code with the
// compiler under test.
package mpcl

import (
	"fmt"
	"math/big"
	"strings"
)

// Type kinds.
const (
	KBool   = "bool"
	KInt    = "int"
	KUint   = "uint"
	KArray  = "array"
	KStruct = "struct"
)

// Type is an MPCL type.
type Type struct {
	K string `json:"k"`
	N int    `json:"n,omitempty"` // bits (int/uint) or length (array)
	E *Type  `json:"e,omitempty"` // array element type
	S string `json:"s,omitempty"` // struct type name
}

// Bool, Int and Uint construct scalar types.
func Bool() Type      { return Type{K: KBool, N: 1} }
func Int(n int) Type  { return Type{K: KInt, N: n} }
func Uint(n int) Type { return Type{K: KUint, N: n} }
func Array(n int, e Type) Type {
	return Type{K: KArray, N: n, E: &e}
}

// IsInt tells whether the type is intN or uintN.
func (t Type) IsInt() bool { return t.K == KInt || t.K == KUint }

// Signed tells whether the type is intN.
func (t Type) Signed() bool { return t.K == KInt }

// Equal compares types structurally.
func (t Type) Equal(o Type) bool {
	if t.K != o.K || t.N != o.N || t.S != o.S {
		return false
	}
	if t.E != nil || o.E != nil {
		if t.E == nil || o.E == nil {
			return false
		}
		return t.E.Equal(*o.E)
	}
	return true
}

func (t Type) String() string {
	switch t.K {
	case KBool:
		return "bool"
	case KInt:
		return fmt.Sprintf("int%d", t.N)
	case KUint:
		return fmt.Sprintf("uint%d", t.N)
	case KArray:
		return fmt.Sprintf("[%d]%s", t.N, t.E)
	case KStruct:
		return t.S
	}
	return "?" + t.K
}

// Field is a struct field.
type Field struct {
	Name string `json:"name"`
	T    Type   `json:"t"`
}

// StructDef is a named struct type.
type StructDef struct {
	Name   string  `json:"name"`
	Fields []Field `json:"fields"`
}

// Expression node kinds.
const (
	EVar      = "var"      // Name
	ELit      = "lit"      // Val (decimal), typed by context T
	ELoopVar  = "loopvar"  // Name; compile-time constant, typed by context
	EBin      = "bin"      // Name = operator, A[0], A[1]
	EUn       = "un"       // Name = "-" or "!", A[0]
	ECast     = "cast"     // T(A[0])
	EIndex    = "index"    // A[0] array expr (var), Idx const index or loop var in Name
	EDynIndex = "dynindex" // A[0] array var, A[1] index expr (masked to a power of two length)
	EField    = "field"    // A[0] struct var, Name = field
	ECall     = "call"     // Name = function, A = args (single result)
	// EComposite is a constant composite literal: T is an array or struct
	// type, A holds one literal per element / field, in order.
	EComposite = "composite"
)

// Expr is a typed expression.
type Expr struct {
	Op   string  `json:"op"`
	T    Type    `json:"t"`
	Name string  `json:"name,omitempty"`
	Val  string  `json:"val,omitempty"`
	Idx  int     `json:"idx,omitempty"`
	A    []*Expr `json:"a,omitempty"`
}

// Statement kinds.
const (
	SVar      = "var"      // var Name T [= E]
	SDefine   = "define"   // Name := E
	SAssign   = "assign"   // Name = E
	SOpAssign = "opassign" // Name Op= E
	SSetIndex = "setindex" // Name[Idx or LoopVar] = E
	SSetField = "setfield" // Name.Field = E
	SIf       = "if"       // if E { Then } else { Else }
	SFor      = "for"      // for Var := 0; Var < Count; Var++ { Body }
	SForRange = "forrange" // for Var, Name := range E { Body }  (E an array variable)
	SReturn   = "return"   // return Es...
	SCall     = "callstmt" // Names... := Fn(Es...)   (multi-result call)
)

// Stmt is a statement.
type Stmt struct {
	K       string   `json:"k"`
	Name    string   `json:"name,omitempty"`
	Names   []string `json:"names,omitempty"`
	T       *Type    `json:"t,omitempty"`
	Op      string   `json:"op,omitempty"`
	Idx     int      `json:"idx,omitempty"`
	LoopIdx string   `json:"loopidx,omitempty"` // index is this loop variable instead of Idx
	// Idx2 (SSetIndex on an array of arrays): Name[Idx][Idx2-1] = E when
	// Idx2 > 0.
	Idx2 int `json:"idx2,omitempty"`
	Field   string   `json:"field,omitempty"`
	Fn      string   `json:"fn,omitempty"`
	E       *Expr    `json:"e,omitempty"`
	Es      []*Expr  `json:"es,omitempty"`
	Then    []*Stmt  `json:"then,omitempty"`
	Else    []*Stmt  `json:"else,omitempty"`
	Var     string   `json:"var,omitempty"`
	Count   int      `json:"count,omitempty"`
	Body    []*Stmt  `json:"body,omitempty"`
	ForStep string   `json:"forstep,omitempty"` // "i++" (default) or "i = i + 1"
	// Outer (SFor): the loop variable Var is an int32 variable declared
	// before the loop; the loop is `for Var = Start; Var < Start+Count;
	// Var++` and leaves Var at Start+Count (also when Count is 0).
	Outer bool `json:"outer,omitempty"`
	Start int  `json:"start,omitempty"`
}

// Param is a function parameter.
type Param struct {
	Name string `json:"name"`
	T    Type   `json:"t"`
}

// Func is a function; Results may carry names (named results).
type Func struct {
	Name        string   `json:"name"`
	Params      []Param  `json:"params"`
	Results     []Type   `json:"results"`
	ResultNames []string `json:"result_names,omitempty"`
	Body        []*Stmt  `json:"body"`
}

// Prog is a whole program; the function called "main" is the entry point.
type Prog struct {
	Structs []StructDef `json:"structs,omitempty"`
	// Consts are untyped package-level constants (`const NAME = VAL`).  A
	// literal expression whose Name is set refers to one of them.
	Consts []ConstDef `json:"consts,omitempty"`
	Funcs  []*Func    `json:"funcs"`
}

// ConstDef is an untyped package-level integer constant.
type ConstDef struct {
	Name string `json:"name"`
	Val  string `json:"val"`
}

// Main returns the main function.
func (p *Prog) Main() *Func {
	for _, f := range p.Funcs {
		if f.Name == "main" {
			return f
		}
	}
	return nil
}

// Struct looks up a struct definition.
func (p *Prog) Struct(name string) *StructDef {
	for i := range p.Structs {
		if p.Structs[i].Name == name {
			return &p.Structs[i]
		}
	}
	return nil
}

// Bits returns the number of bits of a value of type t.
func (p *Prog) Bits(t Type) int {
	switch t.K {
	case KBool:
		return 1
	case KInt, KUint:
		return t.N
	case KArray:
		return t.N * p.Bits(*t.E)
	case KStruct:
		n := 0
		for _, f := range p.Struct(t.S).Fields {
			n += p.Bits(f.T)
		}
		return n
	}
	panic("bits of " + t.K)
}

// ---------------------------------------------------------------------------
// Printer.

// Source renders the program as MPCL source text.
func (p *Prog) Source() string {
	var sb strings.Builder
	sb.WriteString("package main\n\n")
	for _, s := range p.Structs {
		fmt.Fprintf(&sb, "type %s struct {\n", s.Name)
		for _, f := range s.Fields {
			fmt.Fprintf(&sb, "\t%s %s\n", f.Name, f.T)
		}
		sb.WriteString("}\n\n")
	}
	for _, c := range p.Consts {
		fmt.Fprintf(&sb, "const %s = %s\n", c.Name, c.Val)
	}
	if len(p.Consts) > 0 {
		sb.WriteString("\n")
	}
	for _, f := range p.Funcs {
		fmt.Fprintf(&sb, "func %s(", f.Name)
		for i, pa := range f.Params {
			if i > 0 {
				sb.WriteString(", ")
			}
			fmt.Fprintf(&sb, "%s %s", pa.Name, pa.T)
		}
		sb.WriteString(") ")
		if len(f.Results) == 1 && len(f.ResultNames) == 0 {
			fmt.Fprintf(&sb, "%s ", f.Results[0])
		} else if len(f.Results) > 0 {
			sb.WriteString("(")
			for i, r := range f.Results {
				if i > 0 {
					sb.WriteString(", ")
				}
				if len(f.ResultNames) > 0 {
					fmt.Fprintf(&sb, "%s ", f.ResultNames[i])
				}
				sb.WriteString(r.String())
			}
			sb.WriteString(") ")
		}
		sb.WriteString("{\n")
		printStmts(&sb, f.Body, 1)
		sb.WriteString("}\n\n")
	}
	return sb.String()
}

func indent(sb *strings.Builder, n int) {
	for i := 0; i < n; i++ {
		sb.WriteByte('\t')
	}
}

func printStmts(sb *strings.Builder, list []*Stmt, lvl int) {
	for _, s := range list {
		printStmt(sb, s, lvl)
	}
}

func idxText(s *Stmt) string {
	if s.LoopIdx != "" {
		return s.LoopIdx
	}
	return fmt.Sprint(s.Idx)
}

func printStmt(sb *strings.Builder, s *Stmt, lvl int) {
	indent(sb, lvl)
	switch s.K {
	case SVar:
		if s.E != nil {
			fmt.Fprintf(sb, "var %s %s = %s\n", s.Name, s.T, s.E)
		} else {
			fmt.Fprintf(sb, "var %s %s\n", s.Name, s.T)
		}
	case SDefine:
		fmt.Fprintf(sb, "%s := %s\n", s.Name, s.E)
	case SAssign:
		fmt.Fprintf(sb, "%s = %s\n", s.Name, s.E)
	case SOpAssign:
		fmt.Fprintf(sb, "%s %s= %s\n", s.Name, s.Op, s.E)
	case SSetIndex:
		if s.Idx2 > 0 {
			fmt.Fprintf(sb, "%s[%s][%d] = %s\n", s.Name, idxText(s), s.Idx2-1, s.E)
		} else {
			fmt.Fprintf(sb, "%s[%s] = %s\n", s.Name, idxText(s), s.E)
		}
	case SSetField:
		fmt.Fprintf(sb, "%s.%s = %s\n", s.Name, s.Field, s.E)
	case SIf:
		printIf(sb, s, lvl)
	case SFor:
		step := s.Var + "++"
		if s.ForStep == "add" {
			step = s.Var + " = " + s.Var + " + 1"
		}
		if s.Outer {
			fmt.Fprintf(sb, "for %s = %d; %s < %d; %s {\n", s.Var, s.Start, s.Var, s.Start+s.Count, step)
		} else {
			fmt.Fprintf(sb, "for %s := 0; %s < %d; %s {\n", s.Var, s.Var, s.Count, step)
		}
		printStmts(sb, s.Body, lvl+1)
		indent(sb, lvl)
		sb.WriteString("}\n")
	case SForRange:
		fmt.Fprintf(sb, "for %s, %s := range %s {\n", s.Var, s.Name, s.E)
		printStmts(sb, s.Body, lvl+1)
		indent(sb, lvl)
		sb.WriteString("}\n")
	case SReturn:
		sb.WriteString("return")
		for i, e := range s.Es {
			if i == 0 {
				sb.WriteString(" ")
			} else {
				sb.WriteString(", ")
			}
			sb.WriteString(e.String())
		}
		sb.WriteString("\n")
	case SCall:
		fmt.Fprintf(sb, "%s := %s(", strings.Join(s.Names, ", "), s.Fn)
		for i, e := range s.Es {
			if i > 0 {
				sb.WriteString(", ")
			}
			sb.WriteString(e.String())
		}
		sb.WriteString(")\n")
	default:
		panic("print: unknown statement " + s.K)
	}
}

func printIf(sb *strings.Builder, s *Stmt, lvl int) {
	fmt.Fprintf(sb, "if %s {\n", s.E)
	printStmts(sb, s.Then, lvl+1)
	indent(sb, lvl)
	if len(s.Else) == 1 && s.Else[0].K == SIf && s.Else[0].Op == "elseif" {
		sb.WriteString("} else ")
		printIf(sb, s.Else[0], lvl)
		return
	}
	if len(s.Else) > 0 {
		sb.WriteString("} else {\n")
		printStmts(sb, s.Else, lvl+1)
		indent(sb, lvl)
	}
	sb.WriteString("}\n")
}

func (e *Expr) String() string {
	switch e.Op {
	case EVar, ELoopVar:
		return e.Name
	case ELit:
		if e.Name != "" {
			return e.Name // package-level constant
		}
		return e.Val
	case EBin:
		return fmt.Sprintf("(%s %s %s)", e.A[0], e.Name, e.A[1])
	case EUn:
		return fmt.Sprintf("%s%s", e.Name, paren(e.A[0]))
	case ECast:
		return fmt.Sprintf("%s(%s)", e.T, e.A[0])
	case EIndex:
		if e.Name != "" {
			return fmt.Sprintf("%s[%s]", e.A[0], e.Name)
		}
		return fmt.Sprintf("%s[%d]", e.A[0], e.Idx)
	case EDynIndex:
		return fmt.Sprintf("%s[%s]", e.A[0], e.A[1])
	case EField:
		return fmt.Sprintf("%s.%s", e.A[0], e.Name)
	case ECall:
		var args []string
		for _, a := range e.A {
			args = append(args, a.String())
		}
		return fmt.Sprintf("%s(%s)", e.Name, strings.Join(args, ", "))
	case EComposite:
		var args []string
		for i, a := range e.A {
			if e.T.K == KStruct && e.Name != "" {
				// keyed form: Name holds the comma separated field names
				args = append(args, strings.Split(e.Name, ",")[i]+": "+a.String())
			} else {
				args = append(args, a.String())
			}
		}
		return fmt.Sprintf("%s{%s}", e.T, strings.Join(args, ", "))
	}
	panic("print: unknown expression " + e.Op)
}

func paren(e *Expr) string {
	s := e.String()
	if strings.HasPrefix(s, "(") {
		return s
	}
	return "(" + s + ")"
}

// ---------------------------------------------------------------------------
// Values.

// Value is a run-time value: scalars keep their unsigned bit pattern
// (0 <= Bits < 2^width); arrays and structs keep their members.
type Value struct {
	Bits  *big.Int
	Elems []Value
}

func mask(n int) *big.Int {
	m := new(big.Int).Lsh(big.NewInt(1), uint(n))
	return m.Sub(m, big.NewInt(1))
}

// Wrap reduces v modulo 2^n into [0, 2^n).
func Wrap(v *big.Int, n int) *big.Int {
	r := new(big.Int).And(v, mask(n)) // big.Int And on negative numbers is two's complement
	return r
}

// ToSigned interprets an n-bit pattern as two's complement.
func ToSigned(v *big.Int, n int) *big.Int {
	if v.Bit(n-1) == 1 {
		return new(big.Int).Sub(v, new(big.Int).Lsh(big.NewInt(1), uint(n)))
	}
	return new(big.Int).Set(v)
}

// Zero returns the zero value of a type.
func (p *Prog) Zero(t Type) Value {
	switch t.K {
	case KBool, KInt, KUint:
		return Value{Bits: new(big.Int)}
	case KArray:
		v := Value{Elems: make([]Value, t.N)}
		for i := range v.Elems {
			v.Elems[i] = p.Zero(*t.E)
		}
		return v
	case KStruct:
		sd := p.Struct(t.S)
		v := Value{Elems: make([]Value, len(sd.Fields))}
		for i, f := range sd.Fields {
			v.Elems[i] = p.Zero(f.T)
		}
		return v
	}
	panic("zero of " + t.K)
}

// Copy deep-copies a value.
func (v Value) Copy() Value {
	if v.Elems == nil {
		return Value{Bits: new(big.Int).Set(v.Bits)}
	}
	c := Value{Elems: make([]Value, len(v.Elems))}
	for i, e := range v.Elems {
		c.Elems[i] = e.Copy()
	}
	return c
}

// Pack flattens a value to its wire image: members in declaration order,
// little-endian bits per scalar.
func (p *Prog) Pack(t Type, v Value) *big.Int {
	res := new(big.Int)
	p.pack(t, v, res, 0)
	return res
}

func (p *Prog) pack(t Type, v Value, res *big.Int, ofs int) int {
	switch t.K {
	case KBool, KInt, KUint:
		res.Or(res, new(big.Int).Lsh(v.Bits, uint(ofs)))
		return ofs + p.Bits(t)
	case KArray:
		for _, e := range v.Elems {
			ofs = p.pack(*t.E, e, res, ofs)
		}
		return ofs
	case KStruct:
		for i, f := range p.Struct(t.S).Fields {
			ofs = p.pack(f.T, v.Elems[i], res, ofs)
		}
		return ofs
	}
	panic("pack " + t.K)
}

// Unpack is the inverse of Pack.
func (p *Prog) Unpack(t Type, bits *big.Int) Value {
	v, _ := p.unpack(t, bits, 0)
	return v
}

func (p *Prog) unpack(t Type, bits *big.Int, ofs int) (Value, int) {
	switch t.K {
	case KBool, KInt, KUint:
		n := p.Bits(t)
		x := new(big.Int).Rsh(bits, uint(ofs))
		return Value{Bits: x.And(x, mask(n))}, ofs + n
	case KArray:
		v := Value{Elems: make([]Value, t.N)}
		for i := range v.Elems {
			v.Elems[i], ofs = p.unpack(*t.E, bits, ofs)
		}
		return v, ofs
	case KStruct:
		sd := p.Struct(t.S)
		v := Value{Elems: make([]Value, len(sd.Fields))}
		for i, f := range sd.Fields {
			v.Elems[i], ofs = p.unpack(f.T, bits, ofs)
		}
		return v, ofs
	}
	panic("unpack " + t.K)
}
