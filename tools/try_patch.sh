#!/bin/sh
# usage: tools/try_patch.sh <patch.diff> <ID> [<ID>...]   (env TIER=quick|thorough)
# Applies the patch to a scratch copy of /repo, runs the checks against the
# copy (VERIF_REPO), prints one line per check, removes the copy.
# KEEP_REPLAY=<name> stores the failing input as regress/<ID>/<name>.json.
set -u
patch=$(realpath "$1"); shift
tier=${TIER:-quick}
dir=$(mktemp -d /tmp/mut-XXXXXX)
rsync -a --exclude .git /repo/ "$dir/"
if ! (cd "$dir" && patch -p1 -s --no-backup-if-mismatch < "$patch"); then
  echo "PATCH-FAILED $patch"; rm -rf "$dir"; exit 3
fi
if ! (cd "$dir" && GOFLAGS=-mod=mod GOPROXY=off go build ./... 2>/tmp/mut-build.$$); then
  echo "BUILD-FAILED $patch"; cat /tmp/mut-build.$$ | head -5; rm -rf "$dir" /tmp/mut-build.$$; exit 3
fi
rm -f /tmp/mut-build.$$
cd "$(dirname "$0")/.."
for id in "$@"; do
  out=$(VERIF_REPO="$dir" ./check "$id" "$tier" 2>&1); rc=$?
  sig=$(echo "$out" | grep -m1 "sig=" | sed 's/^ *//')
  # KEEP_REPLAY=<name>: keep the (shrunk) failing input as a regression file.
  if [ $rc -eq 1 ] && [ -n "${KEEP_REPLAY:-}" ]; then
    rp=$(echo "$out" | grep -m1 '^VIOLATION' | sed 's/.*replay=//')
    if [ -f "$rp" ]; then mkdir -p "regress/$id"; cp "$rp" "regress/$id/$KEEP_REPLAY.json"; fi
  fi
  case $rc in
    1) echo "CAUGHT  $id rc=1 $(basename $(dirname $patch))/$(basename $patch) :: $sig";;
    0) echo "MISSED  $id rc=0 $(basename $(dirname $patch))/$(basename $patch)";;
    *) echo "INCONCL $id rc=$rc $(basename $(dirname $patch))/$(basename $patch) :: $(echo "$out" | grep -m1 INCONCLUSIVE)";;
  esac
done
rm -rf "$dir"
