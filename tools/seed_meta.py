#!/usr/bin/env python3
"""Writes seeded/<dir>/meta.json.  usage: seed_meta.py <dir> <property> <caught-by: 'C05:stream-vs-whole/...'> <needs...>"""
import json, os, sys
d, prop, caught = sys.argv[1], sys.argv[2], sys.argv[3]
needs = " ".join(sys.argv[4:])
path = os.path.join('/verif/seeded', d)
demo = open(os.path.join(path, '.demo_cmd')).read().strip().split('|') if os.path.exists(os.path.join(path, '.demo_cmd')) else ['', '']
meta = {
    "property": prop,
    "origin": "independent sub-agent given only the property text and a scratch worktree of /repo (no access to /verif)",
    "breaks": "see notes.md",
    "needs_to_manifest": needs,
    "confirmed": {
        "how": "tools/verify_seed.sh in the sub-agent's worktree: patch applies, go build ./... and go test -run '^$' ./... succeed, the 109 baseline tests of /root/.vp/BASELINE.json pass with the change, the demonstration fails with the change and passes without it",
        "demo_placement": demo[0],
        "demo_cmd": "go test -vet=off -count=1 " + demo[1],
    },
    "checked_with": "tools/try_patch.sh <patch.diff> <ID>  (scratch copy of /repo + VERIF_REPO, quick tier)",
    "caught_by": caught,
}
json.dump(meta, open(os.path.join(path, 'meta.json'), 'w'), indent=1)
if os.path.exists(os.path.join(path, '.demo_cmd')):
    os.remove(os.path.join(path, '.demo_cmd'))
print(path)
