#!/bin/sh
# usage: tools/verify_seed.sh <worktree> <n> <PROPERTY> <demo-dest-relative> <go-test-args...>
# Confirms a seeded change: compiles, baseline suite (109 stable tests) passes,
# demo fails with the change and passes without it.  On success stores it under
# /verif/seeded/<PROPERTY>-<tag>-<n>/.
set -u
wt=$1; n=$2; prop=$3; dest=$4; shift 4
export GOFLAGS=-mod=mod GOPROXY=off
V=$(cd "$(dirname "$0")/.." && pwd)
tag=$(basename "$wt")
cd "$wt" || exit 2
git checkout -q -- . ; [ "$dest" = "-" ] || rm -f "$dest"
demo=$(ls seed/$n/demo_test.go seed/$n/demo/main.go 2>/dev/null | head -1)
# Keep the demonstrations under seed/ out of ./... (they declare the package
# they are copied into).
[ -f seed/go.mod ] || printf 'module seeddemos\n' > seed/go.mod
git apply seed/$n/patch.diff || { echo "VERIFY $tag/$n: patch does not apply"; exit 1; }
go build ./... || { echo "VERIFY $tag/$n: build fails"; git checkout -q -- .; exit 1; }
go test -count=1 -run '^$' ./... >/dev/null 2>&1 || { echo "VERIFY $tag/$n: test compilation fails"; git checkout -q -- .; exit 1; }
# Own network namespace: p2p::TestNetwork listens on the fixed port 9000, and
# several verifications run at the same time.
if unshare -n true 2>/dev/null; then
  unshare -n sh -c 'ip link set lo up 2>/dev/null; exec go test -json -vet=off -count=1 -timeout 25m ./...' > /tmp/verify-$tag-$n.json 2>&1
else
  go test -json -vet=off -count=1 -timeout 25m ./... > /tmp/verify-$tag-$n.json 2>&1
fi
if ! python3 "$V/tools/baseline_cmp.py" /tmp/verify-$tag-$n.json > /tmp/verify-$tag-$n.cmp; then
  echo "VERIFY $tag/$n: existing suite does NOT pass with the change:"; cat /tmp/verify-$tag-$n.cmp; git checkout -q -- .; exit 1
fi
[ "$dest" = "-" ] || { mkdir -p "$(dirname "$dest")"; cp "$demo" "$dest"; }
go test -vet=off -count=1 "$@" > /tmp/verify-$tag-$n.with 2>&1; rc_with=$?
git checkout -q -- .
go test -vet=off -count=1 "$@" > /tmp/verify-$tag-$n.without 2>&1; rc_without=$?
[ "$dest" = "-" ] || rm -f "$dest"
if [ $rc_with -ne 0 ] && [ $rc_without -eq 0 ]; then
  out="$V/seeded/$prop-$tag-$n"; mkdir -p "$out"
  cp seed/$n/patch.diff "$out/patch.diff"; cp "$demo" "$out/$(basename $demo)"; cp seed/$n/notes.md "$out/notes.md" 2>/dev/null
  echo "VERIFY $tag/$n: CONFIRMED (demo fails with change rc=$rc_with, passes without; 109 baseline tests pass) -> $out"
  echo "$dest|$*" > "$out/.demo_cmd"
  rm -f /tmp/verify-$tag-$n.*
  exit 0
fi
echo "VERIFY $tag/$n: NOT confirmed (with rc=$rc_with, without rc=$rc_without)"; tail -5 /tmp/verify-$tag-$n.with /tmp/verify-$tag-$n.without
exit 1
