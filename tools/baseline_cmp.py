#!/usr/bin/env python3
"""Compares a `go test -json` output file with /root/.vp/BASELINE.json stable_pass."""
import json, sys
base = json.load(open('/root/.vp/BASELINE.json'))
want = set(base['stable_pass'])
res = {}
for line in open(sys.argv[1], errors='replace'):
    line = line.strip()
    if not line.startswith('{'):
        continue
    try:
        d = json.loads(line)
    except ValueError:
        continue
    if d.get('Action') in ('pass', 'fail', 'skip') and d.get('Test'):
        res[d['Package'] + '::' + d['Test']] = d['Action']
missing = [t for t in sorted(want) if res.get(t) != 'pass']
print('stable_pass: %d, passing now: %d' % (len(want), len(want) - len(missing)))
for t in missing:
    print('  NOT PASSING:', t, res.get(t))
fails = [t for t, a in res.items() if a == 'fail' and t not in want]
print('other failures:', fails)
sys.exit(1 if missing else 0)
