#!/usr/bin/env python3
"""Regenerates /verif/MANIFEST.json from checks.json (single source of truth)."""
import json, os, subprocess
V = os.path.dirname(os.path.dirname(os.path.abspath(__file__)))
cfg = {d.upper(): json.load(open(os.path.join(V, "harness", d, "check.json"))) for d in sorted(os.listdir(os.path.join(V, "harness"))) if os.path.exists(os.path.join(V, "harness", d, "check.json"))}
props = [json.loads(l) for l in open(os.path.join(V, "properties.jsonl")) if l.strip()]
hooks = json.load(open(os.path.join(V, "hooks.json")))
checks, na = [], []
for p in props:
    pid = p["id"]
    c = cfg.get(pid)
    if not c or c.get("disabled") or not c.get("ready"):
        na.append({"property_id": pid, "reason": (c or {}).get("disabled") or "check not built yet (work in progress); the design in DESIGN.md section 4 applies"})
        continue
    checks.append({
        "property_id": pid,
        "quick_cmd": "./check %s quick" % pid,
        "thorough_cmd": "./check %s thorough" % pid,
        "evidence_file": "/verif/evidence/%s.json" % pid,
        "replay_cmd_template": "./check %s quick --replay {path}" % pid,
        "engine": "rapid-harness",
        "level_claimed": {"category": c["level"], "text": c["level_text"], "design_ref": "DESIGN.md section 4, " + pid},
        "level_note": c["level_note"],
        "technique": c["technique"],
    })
m = {
    "version": 1,
    "setup_cmd": "./setup.sh",
    "hooks": hooks,
    "engines": [{"name": "rapid-harness", "path": "/verif/harness", "serves_properties": [c["property_id"] for c in checks],
                 "kind_free_text": "Go test packages (one per property) using pgregory.net/rapid v1.3.0 generators with shrinking, plain enumerations for exhaustive sub-domains and native go fuzzing for byte-level targets; driver /verif/check"}],
    "checks": checks,
    "notes": "Every check builds harness/<id> against /repo's working tree (replace directive) with -tags verif. VERIF_SEED selects the rapid seed (0/unset -> 20260924). Exit 2 = inconclusive/infrastructure. Known findings: /verif/known_findings.txt.",
    "not_applicable": na,
}
json.dump(m, open(os.path.join(V, "MANIFEST.json"), "w"), indent=1)
print("claimed:", [c["property_id"] for c in checks])
print("not claimed:", [n["property_id"] for n in na])
