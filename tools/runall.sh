#!/bin/sh
# usage: tools/runall.sh <tier> [seed]  -> one line per claimed property
cd "$(dirname "$0")/.."
tier=${1:-quick}; seed=${2:-}
for id in $(python3 -c "
import json
for c in json.load(open('MANIFEST.json'))['checks']: print(c['property_id'])"); do
  t0=$(date +%s)
  out=$(VERIF_SEED=$seed ./check $id $tier 2>&1); rc=$?
  t1=$(date +%s)
  echo "$id rc=$rc wall=$((t1-t0))s $(echo "$out" | grep -m1 'evaluations' | sed 's/.*: //') $(echo "$out" | grep -c '^KNOWN-FINDING') known $(echo "$out" | grep -m1 -E 'VIOLATION|INCONCLUSIVE' | cut -c1-150)"
done
