#!/usr/bin/env python3
"""usage: mkmutant.py <ID> <name> <file> <<< 'OLD\n====\nNEW'   -> mutants/<ID>/<name>.patch (unified diff vs /repo)"""
import sys, os, difflib
pid, name, rel = sys.argv[1:4]
old, new = sys.stdin.read().split('\n====\n')
old = old.strip('\n'); new = new.strip('\n')
src = open(os.path.join('/repo', rel)).read()
assert src.count(old) == 1, "OLD must occur exactly once (%d)" % src.count(old)
dst = src.replace(old, new)
diff = difflib.unified_diff(src.splitlines(True), dst.splitlines(True), 'a/' + rel, 'b/' + rel)
os.makedirs('/verif/mutants/' + pid, exist_ok=True)
open('/verif/mutants/%s/%s.patch' % (pid, name), 'w').write(''.join(diff))
print('mutants/%s/%s.patch' % (pid, name))
