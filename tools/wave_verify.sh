#!/bin/sh
# usage: tools/wave_verify.sh <worktree> <PROPERTY> "<n>|<dest>|<go test args>" ...
# Verifies the seeds of one worktree one after the other (tools/verify_seed.sh)
# and runs the property's quick check against every confirmed one
# (tools/try_patch.sh).  Output: one VERIFY line and one CAUGHT/MISSED line per seed.
wt=$1; prop=$2; shift 2
V=$(cd "$(dirname "$0")/.." && pwd)
tag=$(basename "$wt")
for spec in "$@"; do
  n=$(echo "$spec" | cut -d'|' -f1); dest=$(echo "$spec" | cut -d'|' -f2); args=$(echo "$spec" | cut -d'|' -f3)
  # shellcheck disable=SC2086
  if "$V/tools/verify_seed.sh" "$wt" "$n" "$prop" "$dest" $args; then
    "$V/tools/try_patch.sh" "$V/seeded/$prop-$tag-$n/patch.diff" "$prop"
  fi
done
