#!/usr/bin/env python3
"""Regenerates the seeded-change table of DESIGN.md section 9.5 from
seeded/*/meta.json and the first heading of each notes.md (between the table
header line and the first line that does not start with '|')."""
import json, os, re
V = os.path.dirname(os.path.dirname(os.path.abspath(__file__)))
rows = []
for d in sorted(os.listdir(os.path.join(V, 'seeded'))):
    mp = os.path.join(V, 'seeded', d, 'meta.json')
    if not os.path.exists(mp):
        continue
    m = json.load(open(mp))
    title = ''
    np = os.path.join(V, 'seeded', d, 'notes.md')
    if os.path.exists(np):
        for line in open(np, errors='replace'):
            line = line.strip().lstrip('#').strip()
            if line:
                title = line
                break
    cell = lambda s: re.sub(r'\s+', ' ', str(s)).replace('|', '/').strip()
    rows.append('| %s | %s | %s | %s |' % (d, cell(title)[:160], cell(m.get('needs_to_manifest', '')),
                                         cell(m.get('caught_by', ''))))
p = os.path.join(V, 'DESIGN.md')
lines = open(p).read().split('\n')
hdr = next(i for i, l in enumerate(lines) if l.startswith('| seeded change (directory under /verif/seeded)'))
end = hdr + 2
while end < len(lines) and lines[end].startswith('|'):
    end += 1
lines[hdr + 2:end] = rows
open(p, 'w').write('\n'.join(lines))
print(len(rows), 'rows')
