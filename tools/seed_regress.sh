#!/bin/sh
# Runs every stored seeded change (and hand-written mutant) against the quick
# tier of its property; one line per patch.  KEEP=1 stores each failing input
# under regress/<ID>/; ONLY=<regex> restricts the patches.
cd "$(dirname "$0")/.."
for d in seeded/*/; do
  id=$(basename "$d" | cut -d- -f1)
  [ -n "${ONLY:-}" ] && ! echo "$d" | grep -q -E "$ONLY" && continue
  [ -f "$d/patch.diff" ] && KEEP_REPLAY=${KEEP:+seed-$(basename "$d")} tools/try_patch.sh "$d/patch.diff" "$id"
done
for p in mutants/*/*.patch; do
  id=$(basename "$(dirname "$p")")
  [ -n "${ONLY:-}" ] && ! echo "$p" | grep -q -E "$ONLY" && continue
  KEEP_REPLAY=${KEEP:+mutant-$(basename "$p" .patch)} tools/try_patch.sh "$p" "$id"
done
