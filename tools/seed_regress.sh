#!/bin/sh
# Runs every stored seeded change (and hand-written mutant) against the quick
# tier of its property; one line per patch.
cd "$(dirname "$0")/.."
for d in seeded/*/; do
  id=$(basename "$d" | cut -d- -f1)
  [ -f "$d/patch.diff" ] && tools/try_patch.sh "$d/patch.diff" "$id"
done
for p in mutants/*/*.patch; do
  id=$(basename "$(dirname "$p")")
  tools/try_patch.sh "$p" "$id"
done
