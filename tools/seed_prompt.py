#!/usr/bin/env python3
"""Prints the prompt for a seeding sub-agent: property text + worktree only."""
import json, os, sys
pid, wt = sys.argv[1], sys.argv[2]
N = int(os.environ.get('SEEDS', '2'))
WORD = {2: 'TWO', 3: 'THREE', 4: 'FOUR'}[N]
NS = ', '.join(str(i) for i in range(1, N + 1))
EXTRA = ''
if os.environ.get('FLAVOUR'):
    EXTRA = ' Spread them over different kinds of mistake: at least one involving state carried over between calls or sessions (caches, pools, reused buffers, package-level variables, lazily initialised values), at least one at a size / width / count boundary away from the sizes the existing tests use, and at least one on an error path, a rarely taken branch or a refactoring that looks behaviour-preserving.'
if os.environ.get('FLAVOUR') == '2':
    EXTRA += ' Other people have already tried the most obvious sites (the central loop of the main functions of these files): prefer helper functions, initialisation and teardown paths, rarely used options, alternative API entry points (the ones the command line tools use rather than the ones the unit tests use), and behaviour that only shows on the second use of an object.'
if os.environ.get('FLAVOUR') == '3':
    EXTRA = ' Every change must look like an improvement a developer would make on purpose: an added fast path or special case (an operand that is zero, one, all ones, a power of two, equal to the other operand; a width that is a multiple of 8 or 64; an empty or single-element collection; a constant argument), a cache or memo of a computed value, a loop restructured for speed, a buffer allocated once instead of per call, an early return - and be wrong only in a corner of the case it handles (a sign, a width one above or below the usual ones, a second different key for the cache, a value at the boundary of the special case). Other people have already tried plain off-by-one errors and dropped guards in the main loops of these files.'
if os.environ.get('FILES'):
    EXTRA += ' Every change must have its decisive edit in one of these files: ' + os.environ['FILES'] + ' (other people have already covered the remaining files listed as relevant; cooperating edits may touch a second file).'
p = [json.loads(l) for l in open('/verif/properties.jsonl') if l.strip()]
p = [x for x in p if x['id'] == pid][0]
print(f"""You are given a scratch git worktree of the Go repository markkurossi/mpc at {wt} (a toolchain for secure two-party computation: MPCL compiler, garbled circuits, OT, p2p). Work ONLY inside {wt}; do not look at or touch /repo or /verif. No network. For every go command use: export GOFLAGS=-mod=mod GOPROXY=off (nothing else; do not set GOTOOLCHAIN or GOSUMDB).

Here is a semantic property the code is supposed to satisfy:

  Title: {p['title']}
  Statement: {p['statement']}
  Quantified over: {p['quantifier']['text']}
  Relevant files: {', '.join(p['anchors']['files'])}

Task: produce {WORD} different, realistic code changes (bugs a developer could plausibly introduce: an off-by-one at a boundary, a dropped guard, a swapped field, a missing step for one case, two cooperating edits that each look fine alone) to the non-test source files, each of which BREAKS this property while
  (1) the repository still compiles (go build ./... and go vet-free test compilation: go test -count=1 -run '^$' ./...),
  (2) the existing test suite still passes: go test -vet=off -count=1 ./...  (note: the root package test mpc::TestSuite fails on the UNCHANGED tree already because two data files are empty in this sandbox — ignore that one test; everything else must pass; running the packages you touched plus their dependents is enough if the full run is slow), and
  (3) the breakage needs something SPECIFIC to manifest — a particular input shape or size, a particular width, a specific sequence of operations, a particular interleaving, a fault at a particular point — not something ordinary use would expose at once. Prefer subtle over blatant. The changes must all have different root causes / sites.{EXTRA}

For each change deliver, under {wt}/seed/<n>/ (n = {NS}):
  - patch.diff : `git diff` of the change against the worktree's HEAD (source files only, applies with `git apply`),
  - demo_test.go (or demo/main.go) : a demonstration that FAILS with the change applied and PASSES without it (say in a comment at the top where to place it and how to run it, e.g. "copy to {wt}/circuit/demo_test.go and run go test -run TestDemo ./circuit/"),
  - notes.md : what the change does, why the existing tests do not notice, what exactly is needed to make it manifest.
Never use `git stash` (the stash is shared between several worktrees of this repository and others work in parallel): switch between the patched and the unpatched tree with `git apply` / `git apply -R` or `git checkout -- <files>` only. Before finishing: for each change verify all of (1)-(3) yourself, both directions of the demo (fails with, passes without), then leave the worktree source files RESTORED to HEAD (git checkout -- . ; only the seed/ directory remains, untracked). Report briefly what you made.""")
