#!/bin/sh
# Builds every harness test binary once (warms the Go build cache).  Offline.
set -e
cd "$(dirname "$0")/harness"
export GOFLAGS=-mod=mod GOPROXY=off MPCLDIR=/repo
unset GOTOOLCHAIN GOSUMDB
mkdir -p ../.bin
for l in $(cat /repo/go.sum | tr ' ' '_'); do
  line=$(echo "$l" | tr '_' ' ')
  grep -qxF "$line" go.sum 2>/dev/null || echo "$line" >> go.sum
done
go vet -tags verif ./... >/dev/null 2>&1 || true
failed=""
for d in c[0-9][0-9]; do
  [ -d "$d" ] || continue
  # A package that does not build only breaks its own check (the driver
  # reports exit 2 for it); setup itself carries on.
  go test -c -tags verif -o ../.bin/$d.test ./$d/ || failed="$failed $d"
done
if [ -n "$failed" ]; then echo "setup: packages that did not build:$failed"; fi
echo setup ok
exit 0
