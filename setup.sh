#!/bin/sh
# Builds every harness test binary once (warms the Go build cache).  Offline.
set -e
cd "$(dirname "$0")/harness"
export GOFLAGS=-mod=mod GOPROXY=off MPCLDIR=/repo
unset GOTOOLCHAIN GOSUMDB
mkdir -p ../.bin
for l in $(cat /repo/go.sum | tr ' ' '_'); do
  line=$(echo "$l" | tr '_' ' ')
  grep -qxF "$line" go.sum 2>/dev/null || echo "$line" >> go.sum
done
go vet -tags verif ./... >/dev/null 2>&1 || true
for d in c[0-9][0-9]; do
  [ -d "$d" ] || continue
  go test -c -tags verif -o ../.bin/$d.test ./$d/ || exit 1
done
echo setup ok
